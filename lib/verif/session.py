"""Drives the real basictdf.Tdf along a schedule of calls and records, after
every call, an independent projection of the world (DESIGN 4.1, 4.2, 4.6):

  disk   : header + jump table parsed by refio (never by the library), the data
           region as extents of registered payloads, file length, a content id
  mem    : what the open Tdf object holds (public attribute `entries`), the
           number of OS-level descriptors this process has on the file
  reopen : the table a second, fresh Tdf object sees at that instant
  view   : results of the public accessors (len, has_*, get_block by type and by
           index, typed getters, blocks, nBytes) through the open object

The trace is judged by TLC (spec/TdfSessionTrace.tla); nothing is judged here.
"""
import os
import resource
import signal
import struct

from . import refio, blocks
from basictdf import Tdf
from basictdf.tdfBlock import BlockType

RAISED = -2
NA = -3

MEM_LIMIT = 4 << 30  # address-space cap while library code runs on possibly corrupt bytes
CALL_SECONDS = 20


class LibraryTimeout(Exception):
    pass


def _alarm(signum, frame):
    raise LibraryTimeout("library call exceeded its time budget")


class guarded:
    """Run library code under an address-space cap and a wall-clock alarm, so that a
    decoder fed with garbage (huge counts) raises instead of taking the machine down."""

    def __init__(self, seconds=CALL_SECONDS):
        self.seconds = seconds

    def __enter__(self):
        self.old = resource.getrlimit(resource.RLIMIT_AS)
        hard = self.old[1]
        lim = MEM_LIMIT if hard == resource.RLIM_INFINITY else min(MEM_LIMIT, hard)
        resource.setrlimit(resource.RLIMIT_AS, (lim, hard))
        self.oldh = signal.signal(signal.SIGALRM, _alarm)
        signal.setitimer(signal.ITIMER_REAL, self.seconds)
        return self

    def __exit__(self, *a):
        signal.setitimer(signal.ITIMER_REAL, 0)
        signal.signal(signal.SIGALRM, self.oldh)
        resource.setrlimit(resource.RLIMIT_AS, self.old)
        return False


class World:
    """registry of payload bytes, comments and file-content ids of one trace"""

    def __init__(self):
        self.by_bytes = {}
        self.next_uid = 1
        self.comments = {refio.DEFAULT_COMMENT: 0}
        self.shas = {}

    def register(self, data):
        uid = self.by_bytes.get(data)
        if uid is None:
            uid = self.next_uid
            self.next_uid += 1
            self.by_bytes[data] = uid
        return uid

    def fresh_uid(self):
        uid = self.next_uid
        self.next_uid += 1
        return uid

    def uid_of(self, data):
        return self.by_bytes.get(data, -1)

    def cid(self, text):
        if text not in self.comments:
            self.comments[text] = len(self.comments)
        return self.comments[text]

    def cid_of(self, text):
        return self.comments.get(text, -1)

    def sha_id(self, sha):
        if sha not in self.shas:
            self.shas[sha] = len(self.shas) + 1
        return self.shas[sha]


def count_fds(path):
    real = os.path.realpath(path)
    n = 0
    for fd in os.listdir("/proc/self/fd"):
        try:
            if os.path.realpath(os.readlink(f"/proc/self/fd/{fd}")) == real:
                n += 1
        except OSError:
            pass
    return n


LIM = 50_000_000   # TLC integers are 32 bit: offsets / sizes of a corrupt table are clamped (and the file marked broken)


def clamp(v):
    return max(-LIM, min(LIM, int(v)))


def observe_disk(path, world):
    with open(path, "rb") as fh:
        raw = fh.read()
    p = refio.parse(raw)
    rows = [[clamp(e["type"]), clamp(e["format"]), clamp(e["offset"]), clamp(e["size"]), world.cid_of(e["comment"]),
             e["cdate"], e["mdate"]] for e in p.table]
    absurd = any(abs(e["offset"]) > LIM or abs(e["size"]) > LIM for e in p.table) or len(raw) > LIM
    te = refio.HDR + refio.ENT * max(p.n, 0)
    live = sorted((e for e in p.table if e["type"] != 0), key=lambda e: e["offset"])
    ext = []
    pos = te
    ok = not p.short
    for e in live:
        if e["size"] < 0 or e["offset"] < pos or e["offset"] + e["size"] > len(raw):
            ok = False
            break
        if e["offset"] > pos:
            ext.append([0, 0, e["offset"] - pos])
        if e["size"] > 0:
            ext.append([world.uid_of(raw[e["offset"]:e["offset"] + e["size"]]), 0, e["size"]])
        pos = e["offset"] + e["size"]
    if ok and pos < len(raw):
        ext.append([0, 0, len(raw) - pos])
    if not ok:
        # structurally broken: the clauses of C03 fire on the table; give the spec
        # a data region of the right length so that FileLen is still meaningful
        ext = [[-1, 0, max(len(raw) - te, 0)]] if len(raw) > te else []
    ok = ok and not absurd
    return dict(broken=not ok, sigok=bool(p.sigok), short=bool(p.short), version=p.version, n=max(p.n, 0) if not p.short else 0,
                flen=min(len(raw), LIM), sha=world.sha_id(p.sha), table=rows if not p.short else [], data=ext), p


def proj_entries(entries, world):
    out = []
    for e in entries:
        out.append([e.type.value, clamp(e.format), clamp(e.offset), clamp(e.size), world.cid_of(e.comment),
                    int(e.creation_date.timestamp()), int(e.last_modification_date.timestamp())])
    return out


class Driver:
    def __init__(self, path, world, types, decodable):
        self.path = path
        self.world = world
        self.types = list(types)
        self.decodable = list(decodable)
        made = getattr(world, "made_by_new", None)
        self.tdf = made if isinstance(made, Tdf) else Tdf(path)
        # a second object on the same path: the two take turns, context by context (an object that
        # was used before must not rely on what it parsed in its earlier contexts)
        self.other = Tdf(path)
        self.pending = False      # allow_write() called on the current object and not yet used up
        self.turns = 0
        self.held = {}      # real type -> (block object last handed to the library, its parameters)
        self.inside = False
        self.stuck = False

    # ------------------------------------------------------------ observation
    def block_uid(self, blk):
        data = blocks.try_encode(blk)
        return self.world.uid_of(data) if data is not None else -1

    def _maybe_reuse(self, rt, op, blk, data):
        """In every second store of a type that was stored before in this history, the caller does not
        build a new block: it takes the OBJECT it handed to the library last time, edits it in place -
        samples overwritten, labels, dates and header fields assigned - until it holds the new
        content, and stores that.  A block is a block however it came about.  (Only when the edit
        provably arrives: same number of items, and the edited object encodes to the same bytes.)"""
        from . import inplace
        params = (op["k"], op["tag"], op["cd"], op["md"])
        held = self.held.get(rt)
        self.nstores = getattr(self, "nstores", 0) + 1
        out = blk
        if held is not None and self.nstores % 2 == 1:
            obj, p0 = held
            try:
                twin = blocks.make_block(rt, *p0)
                if inplace.edit_towards(obj, twin, blk) and blocks.encode(obj) == data:
                    out = obj
                    self.reused = getattr(self, "reused", 0) + 1
                else:
                    self.held.pop(rt, None)      # half-edited: not used again
                    return blk
            except Exception:  # noqa: BLE001
                self.held.pop(rt, None)
                return blk
        self.held[rt] = (out, params)
        return out

    def view(self):
        t = self.tdf
        v = dict(on=True)
        try:
            v["len"] = len(t)
        except Exception:
            v["len"] = RAISED
        v["nbytes"] = t.nBytes
        has, get, getter = [], [], []
        for rt in self.types:
            name = blocks.HAS.get(rt)
            if name is None:
                has.append(NA)
            else:
                try:
                    has.append(1 if getattr(t, name) else 0)
                except Exception:
                    has.append(RAISED)
            try:
                get.append(self.block_uid(t.get_block(BlockType(rt))))
            except Exception:
                get.append(RAISED)
            gname = blocks.GETTER.get(rt)
            if gname is None:
                getter.append(NA)
            else:
                try:
                    getter.append(self.block_uid(getattr(t, gname)))
                except Exception:
                    getter.append(RAISED)
        v["has"], v["get"], v["getter"] = has, get, getter
        idx = []
        n = len(t.entries)
        for i in range(n):
            try:
                b = t[i] if i % 2 else t.get_block(i)
                idx.append(0 if b.type == BlockType.unusedSlot else self.block_uid(b))
            except Exception:
                idx.append(RAISED)
        v["idx"] = idx
        v["oob"] = RAISED       # the statement only says lookups of what is not there raise
        for k in (n, -1, -n):
            try:
                t.get_block(k) if k != -n else t[k]
                v["oob"] = 0
            except Exception:
                pass
        try:
            bl = t.blocks
            v["blocks"] = [0 if b.type == BlockType.unusedSlot else self.block_uid(b) for b in bl]
            v["blocks_ok"] = True
        except Exception:
            v["blocks"] = []
            v["blocks_ok"] = False
        return v

    NOVIEW = dict(on=False, len=0, nbytes=0, has=[], get=[], getter=[], idx=[], oob=0, blocks=[], blocks_ok=False)

    def observe(self, with_view=True):
        disk, _ = observe_disk(self.path, self.world)
        t = self.tdf
        mem = dict(inside=self.inside, has_entries=False, entries=[], fds=count_fds(self.path), adates=[])
        if self.inside and hasattr(t, "entries"):
            try:
                mem["entries"] = proj_entries(t.entries, self.world)
                mem["has_entries"] = True
                # the third date of every entry (no call sets it on purpose; the object and the file agree on it)
                mem["adates"] = [int(e.last_access_date.timestamp()) for e in t.entries]
            except Exception:
                pass
        disk["adates"] = [e["adate"] for e in _.table] if not disk["short"] else []
        reopen = dict(ok=False, entries=[])
        if disk["sigok"] and not disk["short"]:
            try:
                with guarded():
                    with Tdf(self.path) as t2:
                        reopen = dict(ok=True, entries=proj_entries(t2.entries, self.world))
            except Exception:
                pass
        else:
            reopen["ok"] = True  # nothing to compare; C03 fires on the header
        view = dict(self.NOVIEW)
        if with_view and self.inside and mem["has_entries"]:
            try:
                with guarded(60):
                    view = self.view()
            except (LibraryTimeout, MemoryError):
                self.stuck = True
                view = dict(self.NOVIEW, on=True, len=RAISED, has=[RAISED] * len(self.types),
                            get=[RAISED] * len(self.types), getter=[RAISED] * len(self.types),
                            idx=[RAISED] * disk["n"], oob=RAISED)
        return dict(disk=disk, mem=mem, reopen=reopen, view=view)

    # ------------------------------------------------------------ execution
    def execute(self, op):
        """op: concrete call (dict).  Returns the trace event."""
        kind = op["op"]
        if not self.inside and not self.pending:
            # both objects are closed and read-only here, so they are interchangeable for the model -
            # whatever comes next: a context, a read without context, a call that will be refused
            self.turns += 1
            if self.turns % 3 != 0:
                self.tdf, self.other = self.other, self.tdf
        t = self.tdf
        ev = dict(op=kind, t=0, u=0, sz=0, fmt=0, c=0, cok=True, bad="none", cd=0, md=0, leak=False, swallow=False, what="", rv=NA)
        self.copy_leak = False
        call = None
        if kind in ("add", "replace", "set"):
            rt = op["rt"]
            ev["t"] = rt
            ev["cd"], ev["md"] = op["cd"], op["md"]
            if op.get("bad"):
                blk, badkind = blocks.bad_block(rt, op["k"], op["tag"], op["bad"], op["cd"], op["md"])
                ev["bad"] = badkind
                ev["u"] = self.world.fresh_uid()
                ev["fmt"] = 0
            else:
                blk = blocks.make_block(rt, op["k"], op["tag"], op["cd"], op["md"])
                data = blocks.encode(blk)
                blk = self._maybe_reuse(rt, op, blk, data)
                ev["u"] = self.world.register(data)
                ev["sz"] = len(data)
                # the format code the table entry must carry comes from the layout, not from the
                # library's own enum (a renumbered enum is a layout change)
                ev["fmt"] = blocks.layout_format(rt, op["tag"])
            ctext = op.get("comment")
            if kind == "add":
                if ctext is None:
                    ev["c"] = 0
                    call = lambda: t.add_block(blk)  # noqa: E731
                else:
                    ev["c"], ev["cok"] = self._comment(ctext)
                    call = lambda: t.add_block(blk, ctext)  # noqa: E731
            elif kind == "replace":
                if ctext is None:
                    ev["c"] = -1
                    call = lambda: t.replace_block(blk)  # noqa: E731
                else:
                    ev["c"], ev["cok"] = self._comment(ctext)
                    call = lambda: t.replace_block(blk, ctext) if op.get("positional") else t.replace_block(blk, comment=ctext)  # noqa: E731
            else:
                ev["c"] = -1
                name = blocks.SETTER[rt]
                call = lambda: setattr(t, name, blk)  # noqa: E731
        elif kind == "remove":
            ev["t"] = op["rt"]
            if op.get("by") == "block":
                # a block OBJECT of the type instead of the type: its content (and size) is not the
                # stored block's - smaller in one history, larger in the next
                self.turns += 1
                probe = blocks.make_block(op["rt"], 0 if self.turns % 2 else 4, 0)
                call = lambda: t.remove_block(probe)  # noqa: E731
            else:
                call = lambda: t.remove_block(BlockType(op["rt"]))  # noqa: E731
        elif kind == "allow_write":
            def call():
                t.allow_write()
                self.pending = True
        elif kind == "enter":
            def call():
                t.__enter__()
                self.inside = True
        elif kind in ("exit", "exit_exc"):
            def call():
                self.inside = False
                self.pending = False
                if kind == "exit":
                    t.__exit__(None, None, None)
                else:
                    err = RuntimeError("boom")
                    if t.__exit__(RuntimeError, err, None):
                        # a truthy answer tells the with statement that the exception is dealt with:
                        # errors raised inside the context (refused mutations among them) would vanish
                        self.copy_leak = "swallow"
        else:
            reader = self._reader(op)
            ev["what"] = op["what"]
            ev["t"] = op.get("rt", 0)
            if (op["what"] == "has" and op.get("rt") not in blocks.HAS) or (op["what"] == "getter" and op.get("rt") not in blocks.GETTER):
                ev["what"] = op["what"] + "_na"     # this type has no such convenience property

            def call():
                # what the read returns is part of the observation (presence, count, content identity)
                out = reader()
                w = op["what"]
                if w == "has":
                    ev["rv"] = 1 if out else 0
                elif w == "len":
                    ev["rv"] = int(out)
                elif w in ("get_type", "item", "getter"):
                    ev["rv"] = self.block_uid(out)
        res = dict(ok=True, mro=[])
        try:
            with guarded():
                call()
        except BaseException as x:  # noqa: BLE001
            if isinstance(x, (KeyboardInterrupt, SystemExit)):
                raise
            res = dict(ok=False, mro=[c.__name__ for c in type(x).__mro__])
        ev["res"] = res
        ev["leak"] = bool(self.copy_leak) and self.copy_leak != "swallow"
        ev["swallow"] = self.copy_leak == "swallow"
        ev["obs"] = self.observe()
        return ev

    def _comment(self, text):
        try:
            ok = len(text.encode("cp1252")) + 1 <= 256 and "\0" not in text
        except (UnicodeEncodeError, AttributeError):
            ok = False
        return (self.world.cid(text) if ok else self.world.fresh_uid() + 100000), ok

    def _reader(self, op):
        t = self.tdf
        what = op["what"]
        rt = op.get("rt", 0)
        if what == "get_type":
            return lambda: t.get_block(BlockType(rt))
        if what == "get_index":
            return lambda: t.get_block(op.get("i", 0))
        if what == "item":
            return lambda: t[BlockType(rt)]
        if what == "has":
            return lambda: getattr(t, blocks.HAS[rt])
        if what == "getter":
            return lambda: getattr(t, blocks.GETTER[rt])
        if what == "blocks":
            return lambda: t.blocks
        if what == "len":
            return lambda: len(t)
        if what == "nbytes":
            return lambda: t.nBytes
        if what == "repr":
            return lambda: repr(t)
        if what == "eq":
            return lambda: t == Tdf(self.path)
        if what == "eq_self":
            return lambda: t == t
        if what == "copy":
            def do_copy():
                target = self.path + ".copy"
                if os.path.exists(target):
                    os.unlink(target)
                try:
                    cp = t.copy(target)
                    # the copy is a new object on which allow_write() was never called: whatever mode
                    # the original is in, a mutation through the copy must be refused
                    if isinstance(cp, Tdf) and os.path.exists(target):
                        before = open(target, "rb").read()
                        live = [e["type"] for e in refio.parse(before).table if e["type"] != 0]

                        def mutate(obj):
                            if live:
                                obj.remove_block(BlockType(live[0]))
                            else:
                                obj.add_block(blocks.make_block(16, 1, 4242))
                        for attempt in ("bare", "context"):
                            try:
                                if attempt == "bare":
                                    mutate(cp)
                                else:
                                    with cp as f:
                                        mutate(f)
                                self.copy_leak = True
                            except Exception:  # noqa: BLE001
                                pass
                            h = getattr(cp, "handler", None)
                            if attempt == "context" and h is not None and not h.closed and h is not getattr(t, "handler", None):
                                h.close()
                        if open(target, "rb").read() != before:
                            self.copy_leak = True
                finally:
                    if os.path.exists(target):
                        os.unlink(target)
            return do_copy
        raise ValueError(what)


def run_trace(path, world, types, decodable, schedule, meta=None):
    """the initial file must already exist at path"""
    drv = Driver(path, world, types, decodable)
    init = drv.observe(with_view=False)
    steps = []
    setup_failed = None
    for op in schedule:
        try:
            ev = drv.execute(op)
        except Exception as x:  # noqa: BLE001
            # the library raised while the driver was BUILDING a valid block for this call (before the
            # call that is judged): the history ends here, with a verdict instead of a machinery failure
            setup_failed = f"{type(x).__name__}: {x}"[:200]
            break
        steps.append(ev)
        # a structurally broken file (the trace spec stops judging there too) or a library call
        # that ran into the time / memory guard ends the history: nothing after it is meaningful
        if ev["obs"]["disk"]["broken"] or drv.stuck or "LibraryTimeout" in ev["res"]["mro"]:
            break
    # leave no handle behind
    if drv.inside:
        try:
            drv.tdf.__exit__(None, None, None)
        except Exception:
            pass
    tr = dict(types=list(types), decodable=[bool(x) for x in decodable], init=init, steps=steps)
    if meta:
        tr["meta"] = meta
        tr["meta"]["reused_objects"] = getattr(drv, "reused", 0)
        if setup_failed:
            tr["meta"]["setup_failed"] = setup_failed
    return tr
