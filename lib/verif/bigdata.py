"""Real-sized data (M2 / M3 of DESIGN 4.3): large random blocks and the BTS-recorded
reference capture, judged with the exported layout (layout_interp, derived from
the TLA+ table) and by TLC itself on shapes (spec/TdfCodecObs.tla)."""
import io
import json
import os
import random
import time

import numpy as np

from . import common, tlc, REPO
from . import absblocks as ab
from .layout_interp import Layout, RawValues, fbits
from .values import Values

CAPTURE = os.path.join(REPO, "tests", "test_files", "2838~aa~Walking 01.tdf")


def layout():
    path = common.build_path("layout.json")
    key = common.spec_hash("TdfLayout.tla", "TdfCodec.tla", "TdfCodecMC.tla")
    stamp = path + ".key"
    if not os.path.exists(path) or not os.path.exists(stamp) or open(stamp).read() != key:
        cfg = os.path.join(common.scratch(), "layout-export.cfg")
        with open(cfg, "w") as fh:
            fh.write('SPECIFICATION Spec\nCONSTANTS\n  Kinds = {"Header"}\n  MaxF = 1\n  MaxItems = 0\n  WithMutants = FALSE\n'
                     "CHECK_DEADLOCK FALSE\n")
        tlc.run("TdfCodecMC.tla", cfg, workers=1, env={"LAYOUT_OUT": path})
        with open(stamp, "w") as fh:
            fh.write(key)
    return Layout(path)


# ---------------------------------------------------------------------- abstract -> plain
def to_plain(L, struct, v, fmt, vals):
    out = {}
    for f in L.layout[struct]:
        _plain_field(L, f, v, fmt, vals, out)
    return out


def _plain_field(L, f, v, fmt, vals, out):
    k = f["k"]
    if k in ("int", "enum"):
        out[f["name"]] = v[f["name"]]
    elif k == "iid":
        out[f["name"]] = vals.int(f["pool"], v[f["name"]])
    elif k == "flt":
        out[f["name"]] = fbits(f["ty"], vals.flt(f["ty"], v[f["name"]]).tobytes())
    elif k in ("arr", "seq"):
        out[f["name"]] = [fbits(f["ty"], vals.flt(f["ty"], x).tobytes()) for x in v[f["name"]]]
    elif k in ("iarr", "varr"):
        out[f["name"]] = [vals.int(f["pool"], x) for x in v[f["name"]]]
    elif k == "str":
        out[f["name"]] = vals.text(v[f["name"]], f["w"])
    elif k in ("list", "case"):
        item = f["item"] if k == "list" else Layout._alt(f["alts"], fmt)
        out[f["name"]] = [to_plain(L, item, x, fmt, vals) for x in v[f["name"]]]
    elif k == "rle":
        out[f["name"]] = [[fbits(f["ty"], vals.flt(f["ty"], x).tobytes()) for x in fr] for fr in v[f["name"]]]
    elif k == "cond":
        if fmt in f["in"]:
            for g in f["body"]:
                _plain_field(L, g, v, fmt, vals, out)
        else:
            for g in f["body"]:
                if g["k"] == "list":
                    out[g["name"]] = []
    elif k == "pck":
        out[f["name"]] = [[[[fbits("f32", vals.flt("f32", x).tobytes()), fbits("f32", vals.flt("f32", y).tobytes())] for x, y in cell]
                           for cell in row] for row in v[f["name"]]]
    elif k == "raw":
        out[f["name"]] = "824b6041d31184ca6000b6ac16680c08"


def shape_of(L, struct, v, fmt):
    """what spec/TdfCodec.tla!ShapeSize needs of a plain value"""
    out = {}
    for f in L.layout[struct]:
        _shape_field(L, f, v, fmt, out)
    return out


def _shape_field(L, f, v, fmt, out):
    k = f["k"]
    if k in ("seq", "varr"):
        out[f["name"]] = [0] * len(v[f["name"]])
    elif k in ("list", "case"):
        item = f["item"] if k == "list" else Layout._alt(f["alts"], fmt)
        out[f["name"]] = [shape_of(L, item, x, fmt) for x in v[f["name"]]]
    elif k == "rle":
        out[f["name"]] = [1 if fr else 0 for fr in v[f["name"]]]
    elif k == "pck":
        out[f["name"]] = [[len(cell) for cell in row] for row in v[f["name"]]]
    elif k == "cond" and fmt in f["in"]:
        for g in f["body"]:
            _shape_field(L, g, v, fmt, out)


def masks_of(L, struct, v, fmt):
    """presence masks of all run-length coded items, in encoding order"""
    out = []
    for f in L.layout[struct]:
        if f["k"] in ("list", "case"):
            item = f["item"] if f["k"] == "list" else Layout._alt(f["alts"], fmt)
            for x in v[f["name"]]:
                out += masks_of(L, item, x, fmt)
        elif f["k"] == "rle":
            out.append([1 if fr else 0 for fr in v[f["name"]]])
    return out


# ---------------------------------------------------------------------- random large blocks
def random_mask(rng, n):
    mode = rng.randrange(8)
    if mode == 0:
        return [True] * n
    if mode == 1:
        return [False] * n
    if mode == 2:
        return [i % 2 == 0 for i in range(n)]
    if mode == 3:
        return [False] + [True] * (n - 1)
    if mode == 4:
        return [True] * (n - 1) + [False]
    p = rng.choice([0.02, 0.2, 0.5, 0.9])
    m = []
    cur = rng.random() < 0.5
    for _ in range(n):
        if rng.random() < p:
            cur = not cur
        m.append(cur)
    return m


LIMIT_SHAPES = [("Data2D", 1), ("Data2D", 2), ("EMG", 1), ("EMG", 2), ("Data3D", 1), ("Events", 1), ("ForcePlatformsData", 1)]


def limit_block(kind, which):
    """shapes at the limits of the counts the format stores: 16-bit point counts of 2D cells, runs that
    cross the 2^16-th sample, events without values next to events with many"""
    ids = iter(range(1, 10 ** 9))
    nx = lambda: next(ids)  # noqa: E731
    if kind == "Data2D":
        counts = [32767, 32768, 65535] if which == 1 else [65535, 0, 1]
        data = [[[[nx(), nx()] for _ in range(c)] for c in counts]]
        return 2, dict(nFrames=1, frequency=nx(), startTime=nx(), flags=1, camMap=[nx() for _ in counts], data=data)
    if kind == "EMG":
        n = 65576 if which == 1 else 65536
        gaps = {100} if which == 1 else {65535}
        sig = lambda: dict(label=nx(), frames=[[] if i in gaps else [nx()] for i in range(n)])  # noqa: E731
        return 1, dict(frequency=nx(), startTime=nx(), nSamples=n, chans=[nx(), nx()], signals=[sig(), sig()])
    if kind == "Data3D":
        n = 65540
        return 1, dict(nFrames=n, frequency=nx(), startTime=nx(), flag=0, links=[],
                       tracks=[dict(label=nx(), frames=[[] if i in (7, 65536) else [nx(), nx(), nx()] for i in range(n)])],
                       volume=[nx() for _ in range(3)], rotationMatrix=[nx() for _ in range(9)], translationVector=[nx() for _ in range(3)])
    if kind == "Events":
        evs = [dict(label=nx(), type=0, values=[]), dict(label=nx(), type=1, values=[]), dict(label=nx(), type=0, values=[nx()]),
               dict(label=nx(), type=1, values=[nx() for _ in range(300)]), dict(label=nx(), type=0, values=[])]
        return 1, dict(startTime=nx(), events=evs)
    if kind == "ForcePlatformsData":
        n = 5
        return 1, dict(frequency=nx(), startTime=nx(), nFrames=n, chans=[nx() for _ in range(3)],
                       platforms=[dict(frames=[[nx() for _ in range(6)] if p else [] for p in m])
                                  for m in ([0, 1, 1, 0, 1], [1, 1, 1, 1, 1], [0, 0, 0, 0, 0])])
    raise ValueError(kind)


def random_block(rng, kind, limit=0):
    """an abstract block (ids) of a shape far beyond the model-checked bound"""
    if limit:
        return limit_block(kind, limit)
    ids = iter(range(1, 10 ** 9))
    nx = lambda: next(ids)  # noqa: E731
    n = rng.choice([1, 2, 7, 64, 300])
    k = rng.choice([0, 1, 3, 12])
    geom = dict(volume=[nx() for _ in range(3)], rotationMatrix=[nx() for _ in range(9)],
                translationVector=[nx() for _ in range(3)])

    def frames(per):
        return [[nx() for _ in range(per)] if p else [] for p in random_mask(rng, n)]
    if kind == "Data3D":
        fmt = rng.choice([1, 2])
        links = [dict(a=nx(), b=nx()) for _ in range(rng.choice([0, 1, 5]))] if fmt == 1 else []
        return fmt, dict(nFrames=n, frequency=nx(), startTime=nx(), flag=rng.choice([0, 1]), links=links,
                         tracks=[dict(label=nx(), frames=frames(3)) for _ in range(k)], **geom)
    if kind == "EMG":
        return 1, dict(frequency=nx(), startTime=nx(), nSamples=n, chans=[nx() for _ in range(k)],
                       signals=[dict(label=nx(), frames=frames(1)) for _ in range(k)])
    if kind == "ForceTorque3D":
        return 1, dict(frequency=nx(), startTime=nx(), nFrames=n, tracks=[dict(label=nx(), frames=frames(9)) for _ in range(k)], **geom)
    if kind == "ForcePlatformsData":
        return 1, dict(frequency=nx(), startTime=nx(), nFrames=n, chans=[nx() for _ in range(k)],
                       platforms=[dict(frames=frames(6)) for _ in range(k)])
    if kind == "ForcePlatformsCalibration":
        return 2, dict(chans=[nx() for _ in range(k)],
                       platforms=[dict(label=nx(), size=[nx(), nx()], position=[nx() for _ in range(12)]) for _ in range(k)])
    if kind == "Data2D":
        nc = rng.choice([0, 1, 4, 10])
        nf = rng.choice([1, 3, 40])
        data = [[[[nx(), nx()] for _ in range(rng.choice([0, 0, 1, 2, 9]))] for _ in range(nc)] for _ in range(nf)]
        return 2, dict(nFrames=nf, frequency=nx(), startTime=nx(), flags=rng.choice([0, 1]), camMap=[nx() for _ in range(nc)], data=data)
    if kind == "CalibrationData":
        fmt = rng.choice([1, 2])
        cams = []
        for _ in range(k):
            c = dict(rotation_matrix=[nx() for _ in range(9)], translation_vector=[nx() for _ in range(3)],
                     focus=[nx(), nx()], optical_center=[nx(), nx()], vp_origin=[nx(), nx()], vp_size=[nx(), nx()])
            if fmt == 1:
                c.update(radial_distortion=[nx(), nx()], decentering=[nx(), nx()], thin_prism=[nx(), nx()])
            else:
                c.update(x_distortion_coefficients=[nx() for _ in range(70)], y_distortion_coefficients=[nx() for _ in range(70)])
            cams.append(c)
        return fmt, dict(distorsion_model=rng.choice([0, 1, 2, 3]), size=[nx() for _ in range(3)],
                         rotationMatrix=[nx() for _ in range(9)], translationVector=[nx() for _ in range(3)],
                         chans=[nx() for _ in range(k)], cams=cams)
    if kind == "OpticalSetup":
        return 1, dict(channels=[dict(logical_camera_index=nx(), lens_name=nx(), camera_type=nx(), camera_name=nx(),
                                      vp_origin=[nx(), nx()], vp_size=[nx(), nx()]) for _ in range(k)])
    if kind == "Events":
        evs = []
        for _ in range(k):
            t = rng.choice([0, 1])
            evs.append(dict(label=nx(), type=t, values=[nx() for _ in range(rng.choice([0, 1]) if t == 0 else rng.choice([0, 1, 2, 30]))]))
        return 1, dict(startTime=nx(), events=evs)
    raise ValueError(kind)


def observe_block(L, kind, fmt, enc, obj_nbytes, consumed, declared=-1):
    """decode the real bytes with the layout interpreter; -> (plain value, observation for TLC)"""
    v, pos, info = L.decode(kind, enc, fmt)
    obs = dict(kind=kind, fmt=fmt, shape=shape_of(L, kind, v, fmt), nbytes=int(obj_nbytes), written=len(enc),
               consumed=int(consumed), declared=int(declared), masks=masks_of(L, kind, v, fmt),
               runs=[[list(r) for r in tab] for tab in info["runs"]])
    return v, pos, info, obs


def judge(observations):
    """TLC decides every observation; -> (result, [(size_ok, runs_ok, expected)])"""
    of = os.path.join(common.scratch(), f"obs-{time.time_ns()}.json")
    with open(of, "w") as fh:
        json.dump(observations, fh)
    res = tlc.run("TdfCodecObs.tla", "Obs_codec.cfg", workers=4, env={"OBS_FILE": of}, check=False, timeout=1800)
    os.unlink(of)
    if res.error or res.violation:
        raise common.Machinery(f"TdfCodecObs failed to run: {res.error or res.violation}\n{res.out[-2000:]}")
    verdict = {}
    for line in res.out.splitlines():
        if line.startswith('"OBS '):
            o = json.loads(json.loads(line)[4:])
            verdict[o["k"]] = (o["size_ok"], o["runs_ok"], o["expected"])
    if len(verdict) != len(observations):
        raise common.Machinery(f"{len(verdict)} verdicts for {len(observations)} observations\n{res.out[-1500:]}")
    return res, [verdict[i + 1] for i in range(len(observations))]


def random_campaign_one(rp, props):
    return random_campaign(0, 1, props, fixed=rp)[0]


def random_campaign(seed, count, props, fixed=None, limits=False):
    """-> (list of (clause, detail, replay), observations judged, tlc result)"""
    L = layout()
    rng = random.Random(seed)
    bad = []
    observations = []
    metas = []
    for n in range(count):
        kind = ab.BLOCK_KINDS[n % len(ab.BLOCK_KINDS)]
        bseed = rng.randrange(10 ** 9)
        r, style = n % 5, n % 12
        limit = 0
        if fixed:
            kind, bseed, r, style = fixed["block_kind"], fixed["block_seed"], fixed["r"], fixed.get("style", 0)
            limit = fixed.get("limit", 0)
        elif limits and n < len(LIMIT_SHAPES):
            kind, limit = LIMIT_SHAPES[n]
        fmt, b = random_block(random.Random(bseed), kind, limit)
        vals = Values(r=r, specials=True)
        rp = dict(kind="bigblock", block_kind=kind, block_seed=bseed, r=r, style=style, limit=limit)
        try:
            obj = ab.gamma(kind, fmt, b, vals, style=style)
            enc = ab.encode(obj)
        except Exception as x:  # noqa: BLE001
            bad.append(("C01:valid_block_refused", f"{kind}: {type(x).__name__}: {x}", rp))
            continue
        plain = to_plain(L, kind, b, fmt, vals)
        exp = L.encode(kind, plain, fmt)
        if enc != exp:
            bad.append(("C06:bytes_differ", f"large {kind} format {fmt}: first difference at byte {_fd(enc, exp)} of {len(enc)}/{len(exp)}", rp))
        try:
            dec, pos = ab.decode(kind, fmt, enc, b"\x5a" * 11)
            back = ab.alpha(kind, fmt, dec, RawValues())
            if back != plain:
                bad.append(("C01:decode_differs", f"large {kind} format {fmt}", rp))
                if enc == exp:
                    # the bytes are exactly the layout's, and the library reads other values from them
                    # than the layout-driven decoder does
                    bad.append(("C06:decoded_values_differ", f"large {kind} format {fmt}: layout-conformant bytes decode to other values", rp))
            if ab.encode(dec) != enc:
                bad.append(("C01:reencode_differs", f"large {kind} format {fmt}", rp))
        except Exception as x:  # noqa: BLE001
            bad.append(("C01:decode_failed", f"large {kind}: {type(x).__name__}: {x}", rp))
            pos = -1
        try:
            v, ipos, info, obs = observe_block(L, kind, fmt, enc, obj.nBytes, pos)
            observations.append(obs)
            metas.append(rp)
        except Exception as x:  # noqa: BLE001
            bad.append(("C06:not_layout_conformant", f"large {kind}: the layout-driven decoder fails on the written bytes: {x}", rp))
    res, verdicts = judge(observations) if observations else (None, [])
    for (size_ok, runs_ok, expected), obs, rp in zip(verdicts, observations, metas):
        if not size_ok:
            bad.append(("C02:size", f"large {obs['kind']}: TLC computes {expected} bytes from the shape; nBytes {obs['nbytes']} "
                                    f"written {obs['written']} consumed {obs['consumed']}", rp))
        if not runs_ok:
            bad.append(("C05:run_table", f"large {obs['kind']}: run tables in the written bytes are not the runs of the masks", rp))
    return [b for b in bad if b[0][:3] in props], len(observations), res


def _fd(a, b):
    for i, (x, y) in enumerate(zip(a, b)):
        if x != y:
            return i
    return min(len(a), len(b))


# ---------------------------------------------------------------------- the BTS capture
def capture_campaign(props, scramble_seed=0):
    """the 8 blocks of the BTS-recorded capture: every byte accounted for, the library's
    decode equal to the layout-driven one, sizes equal to the jump table (judged by TLC),
    don't-care bytes scrambled (C12)"""
    from . import refio
    from basictdf import Tdf
    from basictdf.tdfBlock import BlockType
    L = layout()
    raw = open(CAPTURE, "rb").read()
    p = refio.parse(raw)
    bad = []
    observations = []
    golden = {}
    rp = dict(kind="capture")
    if not p.sigok:
        raise common.Machinery("reference capture has no TDF signature")
    spans_all = []
    blocks_plain = {}
    with Tdf(CAPTURE) as t:
        lib_entries = list(t.entries)
        for i, e in enumerate(p.table):
            if e["type"] == 0:
                continue
            kind = L.by_type.get(e["type"])
            if kind is None:
                continue
            payload = raw[e["offset"]:e["offset"] + e["size"]]
            fmt = e["format"]
            try:
                v, pos, info = L.decode(kind, payload, fmt)
            except Exception as x:  # noqa: BLE001
                raise common.Machinery(f"layout interpreter cannot decode capture block {kind}: {x}")
            blocks_plain[kind] = v
            golden[kind] = _digest(v)
            spans_all += [(e["offset"] + a, e["offset"] + z) for a, z in info["dontcare"]]
            if pos != e["size"]:
                bad.append(("C06:bytes_unaccounted", f"capture {kind}: layout-driven decode consumes {pos} of {e['size']} bytes", rp))
            try:
                obj = t.get_block(BlockType(e["type"]))
                back = ab.alpha(kind, fmt, obj, RawValues())
            except Exception as x:  # noqa: BLE001
                bad.append(("C06:capture_decode_failed", f"capture {kind}: {type(x).__name__}: {x}", rp))
                continue
            if back != v:
                from .codec import _where
                bad.append(("C06:capture_decode_differs", f"capture {kind}: {_where(v, back)}", rp))
            try:
                re = ab.encode(obj)
                canon = bytearray(payload)
                for a, z in info["dontcare"]:
                    canon[a:z] = b"\0" * (z - a)
                if re != bytes(canon):
                    bad.append(("C06:capture_reencode_differs", f"capture {kind}: first difference at byte {_fd(re, bytes(canon))}", rp))
                s = io.BytesIO(payload + b"\x77" * 5)
                ab.BLOCK_CLASS[kind]._build(s, fmt)
                observations.append(dict(kind=kind, fmt=fmt, shape=shape_of(L, kind, v, fmt), nbytes=int(obj.nBytes),
                                         written=len(re), consumed=s.tell(), declared=e["size"],
                                         masks=masks_of(L, kind, v, fmt), runs=[[list(r) for r in tab] for tab in info["runs"]]))
            except Exception as x:  # noqa: BLE001
                bad.append(("C06:capture_reencode_differs", f"capture {kind}: {type(x).__name__}: {x}", rp))
    res, verdicts = judge(observations)
    for (size_ok, runs_ok, expected), obs in zip(verdicts, observations):
        if not size_ok:
            bad.append(("C02:capture_size", f"capture {obs['kind']}: TLC computes {expected} from the shape; jump table {obs['declared']}, "
                                            f"nBytes {obs['nbytes']}, re-encoded {obs['written']}, consumed {obs['consumed']}", rp))
        if not runs_ok:
            bad.append(("C05:capture_runs", f"capture {obs['kind']}: run tables are not the maximal runs of the decoded masks", rp))
    # C12: scramble every don't-care byte of the whole file (reserved header words, entry pad,
    # comment tails, block padding, label tails) and read it again
    if "C12" in props:
        rng = random.Random(scramble_seed)
        spans = list(spans_all) + [(24, 32), (44, 64)]
        for i, e in enumerate(p.table):
            base = refio.HDR + refio.ENT * i
            spans.append((base + 28, base + 32))
            cut = e["comment_raw"].find(b"\0")
            if cut >= 0 and cut + 1 < 256:
                spans.append((base + 32 + cut + 1, base + 288))
        for pattern in ("ff", "undefined", "random"):
            buf = bytearray(raw)
            for a, z in spans:
                if pattern == "ff":
                    buf[a:z] = b"\xff" * (z - a)
                elif pattern == "undefined":
                    buf[a:z] = (b"\x81\x8d\x8f\x90\x9d" * ((z - a) // 5 + 1))[: z - a]
                else:
                    buf[a:z] = bytes(rng.randrange(256) for _ in range(z - a))
            path = os.path.join(common.scratch(), f"capture-{pattern}.tdf")
            with open(path, "wb") as fh:
                fh.write(bytes(buf))
            try:
                with Tdf(path) as t2:
                    ents = [(x.type.value, x.format, x.offset, x.size, x.comment) for x in t2.entries]
                    orig = [(x.type.value, x.format, x.offset, x.size, x.comment) for x in lib_entries]
                    if ents != orig:
                        bad.append(("C12:capture_table_depends_on_dontcare", f"pattern {pattern}", rp))
                    for kind, v in blocks_plain.items():
                        tcode = L.blocks[kind]["type"]
                        obj = t2.get_block(BlockType(tcode))
                        fmt = next(e["format"] for e in p.table if e["type"] == tcode)
                        if ab.alpha(kind, fmt, obj, RawValues()) != v:
                            bad.append(("C12:capture_content_depends_on_dontcare", f"{kind}, pattern {pattern}", rp))
            except Exception as x:  # noqa: BLE001
                bad.append(("C12:capture_content_depends_on_dontcare", f"pattern {pattern}: {type(x).__name__}: {x}", rp))
            finally:
                os.unlink(path)
    # second anchor: digests of the decoded capture recorded when the framework was built
    gpath = os.path.join(common.VERIF, "golden", "capture_digests.json")
    if os.path.exists(gpath):
        want = json.load(open(gpath))
        for kind, d in golden.items():
            if want.get(kind) != d:
                raise common.Machinery(f"layout-driven decode of capture block {kind} no longer matches the recorded digest "
                                       f"(the specification or the interpreter changed)")
    return [b for b in bad if b[0][:3] in props], len(observations), res, golden


def _digest(v):
    import hashlib
    return hashlib.sha256(json.dumps(v, sort_keys=True).encode()).hexdigest()


# ---------------------------------------------------------------------- file header and table entries
def header_campaign(props, seed=0):
    """Tdf.new writes a canonical header and 14 canonical entries (C06); headers and entries with
    arbitrary field values and garbage in every reserved byte are read exactly (C06, C12)."""
    from datetime import datetime
    from . import refio
    from basictdf import Tdf
    L = layout()
    rng = random.Random(seed + 3)
    bad = []
    n = 0
    work = common.scratch()
    path = os.path.join(work, f"hdr{seed}.tdf")
    if os.path.exists(path):
        os.unlink(path)
    Tdf.new(path)
    raw = open(path, "rb").read()
    os.unlink(path)
    rp = dict(kind="header")
    try:
        h, pos, info = L.decode("Header", raw, 1)
        n += 1
        if pos != 64 or h["signature"] != "824b6041d31184ca6000b6ac16680c08" or h["version"] != 1 or h["nEntries"] != 14:
            bad.append(("C06:new_header", f"Tdf.new header decodes to {h}", rp))
        if any(raw[a:z] != b"\0" * (z - a) for a, z in info["dontcare"]):
            bad.append(("C06:new_header", "reserved header bytes are not zero", rp))
        if L.encode("Header", h, 1) != raw[:64]:
            bad.append(("C06:new_header", "header bytes differ from the layout-driven encoding of the same values", rp))
        for i in range(14):
            e, p2, inf = L.decode("Entry", raw, 1, pos=64 + 288 * i)
            n += 1
            if L.encode("Entry", e, 1) != raw[64 + 288 * i:64 + 288 * (i + 1)]:
                bad.append(("C06:new_entry", f"entry {i} of a new file is not canonical (reserved bytes / string padding)", rp))
                break
    except Exception as x:  # noqa: BLE001
        bad.append(("C06:new_header", f"new file is not layout-conformant: {x}", rp))
    # read side: arbitrary values, garbage in reserved bytes and after terminators
    for trial in range(12):
        nent = rng.choice([1, 2, 5, 14])
        version = rng.choice([1, 2, 7, 2 ** 31 - 1])
        dates = [rng.randrange(0, 2 ** 31 - 1) for _ in range(3)]
        garbage = trial % 2 == 1
        g = (lambda k: bytes(rng.choice([0xFF, 0x81, 0x41, 0x90]) for _ in range(k))) if garbage else (lambda k: b"\0" * k)
        te = 64 + 288 * nent
        slots = []
        for i in range(nent):
            text = rng.choice(["", "c", "é€ comment", "x" * 255, "f" * 256])
            # a text that fills the whole field has no room for a terminator (the reader takes all of it)
            craw = text.encode("cp1252") + (b"\0" if len(text) < 256 else b"")
            craw = craw + g(256 - len(craw))
            slots.append(dict(type=0, format=rng.randrange(0, 9), offset=te, size=0, cdate=rng.randrange(2 ** 31 - 1),
                              mdate=rng.randrange(2 ** 31 - 1), adate=rng.randrange(2 ** 31 - 1), comment_raw=craw, pad=g(4),
                              _text=text))
        data = refio.pack_header(version, nent, *dates, pad8=g(8), pad20=g(20))
        for s in slots:
            data += refio.pack_entry(s["type"], s["format"], s["offset"], s["size"], s["cdate"], s["mdate"], s["adate"],
                                     comment_raw=s["comment_raw"], pad4=s["pad"])
        with open(path, "wb") as fh:
            fh.write(data)
        n += 1
        clause = "C12:header_depends_on_dontcare" if garbage else "C06:header_read"
        try:
            with Tdf(path) as t:
                got = (int(t.version), int(t.nEntries), int(t.creation_date.timestamp()), int(t.last_modification_date.timestamp()),
                       int(t.last_access_date.timestamp()))
                want = (version, nent, *dates)
                if got != want:
                    bad.append((clause, f"header read as {got}, written {want}", rp))
                for e, s in zip(t.entries, slots):
                    ge = (e.type.value, int(e.format), int(e.offset), int(e.size), int(e.creation_date.timestamp()),
                          int(e.last_modification_date.timestamp()), e.comment)
                    we = (0, s["format"], s["offset"], 0, s["cdate"], s["mdate"], s["_text"])
                    if ge != we:
                        bad.append((clause.replace("header", "entry"), f"entry read as {ge[:6]}, written {we[:6]}", rp))
                        break
        except Exception as x:  # noqa: BLE001
            bad.append((clause, f"{type(x).__name__}: {x}", rp))
        finally:
            os.unlink(path)
    # write side on a FOREIGN table: every entry the library writes - the new one, the unused slots it
    # re-points, the entries it moves - is canonical (reserved word zero, text NUL padded), whatever
    # bytes were in that slot before
    from . import blocks as _blocks
    for trial in range(4):
        nent = [3, 5, 14, 4][trial]
        te = 64 + 288 * nent
        junk = lambda k: bytes(rng.choice([0xFF, 0xDE, 0x41, 0x90]) for _ in range(k))  # noqa: E731
        data = refio.pack_header(1, nent, 1, 2, 3)
        for i in range(nent):
            craw = b"old" + b"\0" + junk(252)
            data += refio.pack_entry(0, 0, te, 0, 5, 6, 7, comment_raw=craw, pad4=junk(4))
        with open(path, "wb") as fh:
            fh.write(data)
        n += 1
        try:
            with Tdf(path).allow_write() as t:
                t.add_block(_blocks.make_block(16, 1, 40 + trial))
                t.add_block(_blocks.make_block(6, 2, 50 + trial))
                after_add = open(path, "rb").read()
                t.remove_block(_blocks.make_block(16, 0, 0).type)
                after_rem = open(path, "rb").read()
            for label, raw2, first in (("add", after_add, 0), ("remove", after_rem, 0)):
                for i in range(first, nent):
                    e, _, _ = L.decode("Entry", raw2, 1, pos=64 + 288 * i)
                    if L.encode("Entry", e, 1) != raw2[64 + 288 * i:64 + 288 * (i + 1)]:
                        bad.append(("C06:rewritten_entry_not_canonical",
                                    f"slot {i} of a {nent}-slot table after {label}: reserved bytes or string padding of an entry the library wrote are not zero", rp))
                        break
        except Exception as x:  # noqa: BLE001
            bad.append(("C06:rewritten_entry_not_canonical", f"{type(x).__name__}: {x}", rp))
        finally:
            if os.path.exists(path):
                os.unlink(path)
    return [b for b in bad if b[0][:3] in props], n
