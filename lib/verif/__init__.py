"""Verification harness for marnunez/basictdf (see /verif/DESIGN.md)."""
import os
import sys
import time

os.environ.setdefault("TZ", "UTC")
try:
    time.tzset()
except AttributeError:  # pragma: no cover
    pass

REPO = os.environ.get("BASICTDF_REPO", "/repo")
SRC = os.path.join(REPO, "src")
if SRC not in sys.path:
    sys.path.insert(0, SRC)
VERIF = os.path.dirname(os.path.dirname(os.path.dirname(os.path.abspath(__file__))))
SPEC = os.path.join(VERIF, "spec")

if os.environ.get("VERIF_COVERAGE"):
    from . import covmon
    covmon.enable(os.environ["VERIF_COVERAGE"], os.path.join(SRC, "basictdf"))
