"""Container-level checks (C03 C04 C07 C08 C09 C10 C11): TLC model checking of
spec/MCSession.tla, transition tours of its state graph executed on the real
library, TLC validation of the recorded traces (spec/TdfSessionTrace.tla)."""
import json
import os
import pickle
import random
import re
import time

from . import common, plan, session, tlc, tours, SPEC

SPEC_FILES = ["TdfExtents.tla", "TdfFile.tla", "TdfSession.tla", "MCSession.tla"]
TRACE_FILES = ["TdfExtents.tla", "TdfFile.tla", "TdfSession.tla", "TdfSessionTrace.tla", "Trace_session.cfg"]

CAMPAIGNS = {
    "n1": dict(cfg="MC_n1.cfg", n=1, wt={1, 2}, ot={7}),
    "n2": dict(cfg="MC_n2.cfg", n=2, wt={1, 2}, ot={7, 8}),
    "n3": dict(cfg="MC_n3.cfg", n=3, wt={1, 2, 3}, ot={7}),
    "n4": dict(cfg="MC_n4.cfg", n=4, wt={1, 2, 3}, ot={7}),
    "modes": dict(cfg="MC_modes.cfg", n=2, wt={1, 2}, ot=set()),
}

INVARIANT_OF = {
    "C03": ["InvWellFormed", "InvFamily"],
    "C04": ["InvFrame", "InvCarry"],
    "C07": ["InvSteps"],
    "C08": ["InvSteps", "InvNoLeak"],
    "C09": ["InvCompact", "InvSteps"],
    "C10": ["InvFrame"],
    "C11": ["InvUnique"],
}


COVERAGE = [False]   # per-action coverage (slow) only in the thorough tier


def graph(name, need_mc=False):
    """(init, adj, descs, mc_result_or_None) of campaign `name`; the labelled state
    graph is cached under build/ keyed by the hash of the specification."""
    camp = CAMPAIGNS[name]
    key = common.spec_hash(*SPEC_FILES, camp["cfg"])
    cache = common.build_path(f"graph-{name}-{key}.pickle")
    res = None
    if not os.path.exists(cache):
        dot = os.path.join(common.scratch(), f"{name}.dot")
        descs = os.path.join(common.scratch(), f"{name}-descs.json")
        res = tlc.run("MCSession.tla", camp["cfg"], workers=16, dump_dot=dot, env={"DESC_OUT": descs}, coverage=False)
        if res.violation:
            raise common.Machinery(f"design model {camp['cfg']} violates {res.violation}:\n{res.out[-3000:]}")
        init, adj = tours.parse_dot(dot)
        os.unlink(dot)
        with open(descs) as fh:
            d = json.load(fh)
        with open(cache + f".{os.getpid()}.tmp", "wb") as fh:
            pickle.dump(dict(init=init, adj=dict(adj), descs=d, mc=res.summary()), fh)
        os.replace(cache + f".{os.getpid()}.tmp", cache)
    with open(cache, "rb") as fh:
        g = pickle.load(fh)
    if need_mc and res is None:
        res = tlc.run("MCSession.tla", camp["cfg"], workers=16, coverage=COVERAGE[0])
        if res.violation:
            raise common.Machinery(f"design model {camp['cfg']} violates {res.violation}:\n{res.out[-3000:]}")
    return g["init"], g["adj"], g["descs"], res


NOCTX = ('"nocontext"', '"readonly"')


def focus_for(prop, budget):
    """list of (edge predicate, max_edges or None) - what a tour for `prop` should spend its steps on"""
    def has(*words):
        return lambda s, d, lab: any(w in lab for w in words)

    def ok_edges(s, d, lab):
        return lab.startswith(("Ok(", "SetOk(", "Setup"))

    def refusal_in_ctx(s, d, lab):
        return lab.startswith(("No(", "SetNo(")) and not any(w in lab for w in NOCTX)

    anything = lambda s, d, lab: True  # noqa: E731
    if prop == "C07":
        return [(has('"hole"'), None), (has('"full"'), budget // 5), (refusal_in_ctx, budget // 2), (ok_edges, budget // 5),
                (anything, budget // 10)]
    if prop == "C08":
        return [(has(*NOCTX, '"read"', "Enter", "ReEnter", "Exit", "allow_write"), int(budget * 0.7)), (anything, int(budget * 0.3))]
    if prop == "C11":
        # (reader calls are offered by the `modes` model only: there they get a third of the budget -
        # presence checks, count and getters asked with no context open, after the file was changed
        # through the other object)
        return [(has('"duplicate"', '"full"', '"set"', "SetOk", "SetNo"), budget // 2), (has('"read"'), budget // 3),
                (ok_edges, budget // 3), (anything, budget // 6)]
    return [(ok_edges, int(budget * 0.7)), (has('"hole"'), None), (anything, int(budget * 0.3))]


def stale_reader_paths(init, adj):
    """Directed paths through the `modes` graph: presence, count and getters are asked with no context
    open, the file is then changed inside a write context (the driver alternates between two objects
    whenever both are closed, so the change goes through the other one), and the same questions are
    asked again - several times, so that both objects are asked."""
    def step(s, pred):
        for d, lab in adj.get(s, ()):
            if pred(lab):
                return d, lab
        return None
    reads = [lambda l, w=w: '"read"' in l and f'what |-> "{w}"' in l for w in ("has", "len", "getter", "get_type")]
    muts = [lambda l: l.startswith("Ok(") and '"add"' in l and "t |-> 1," in l,
            lambda l: l.startswith("Ok(") and '"remove"' in l and "t |-> 1]" in l,
            lambda l: l.startswith("SetOk(1"),
            lambda l: l.startswith("Ok(") and '"replace"' in l and "t |-> 1," in l]
    for s1, l0 in adj.get(init, ()):
        if not l0.startswith("Setup"):
            continue
        for mut in muts:
            labs, s = [l0], s1
            ok = True
            for r in reads[:2]:
                nx = step(s, r)
                if nx:
                    s = nx[0]
                    labs.append(nx[1])
            for pred in (lambda l: "allow_write" in l, lambda l: l == "Enter", mut, lambda l: l == "Exit"):
                nx = step(s, pred)
                if not nx:
                    ok = False
                    break
                s = nx[0]
                labs.append(nx[1])
            if not ok:
                continue
            for r in reads + reads[:3]:
                nx = step(s, r)
                if nx:
                    s = nx[0]
                    labs.append(nx[1])
            yield labs


def execute_tour(name, labs, conc_seed, workdir, descs):
    camp = CAMPAIGNS[name]
    calls = [tours.parse_label(x) for x in labs]
    if not calls or calls[0]["kind"] != "setup":
        raise common.Machinery(f"tour does not start with Setup: {labs[:2]}")
    conc = plan.Concretizer(seed=conc_seed, wt=camp["wt"], ot=camp["ot"])
    world = session.World()
    path = os.path.join(workdir, f"t{conc_seed}.tdf")
    with open(path, "wb") as fh:
        fh.write(conc.build_initial(descs[calls[0]["k"] - 1], camp["n"], world))
    types, dec = conc.types()
    sched = [conc.call(c) for c in calls[1:]]
    try:
        tr = session.run_trace(path, world, types, dec, sched,
                               meta=dict(campaign=name, labels=labs, conc_seed=conc_seed, schedule=sched))
    finally:
        if os.path.exists(path):
            os.unlink(path)
    return tr


class _Merged:
    """summary of several TLC runs"""

    def __init__(self):
        self.distinct = self.generated = self.depth = 0
        self.wall = 0.0
        self.out = ""
        self.coverage = {}

    def add(self, r):
        self.distinct += r.distinct
        self.generated += r.generated
        self.depth = max(self.depth, r.depth)
        self.wall += r.wall

    def summary(self):
        return dict(states=self.distinct, transitions=self.generated, depth=self.depth, wall_s=round(self.wall, 2))


CHUNK = 250   # traces per TLC run (the Json module holds the whole file in memory)


def validate(traces, workers=8):
    """all traces judged by TLC, in chunks"""
    if len(traces) <= CHUNK:
        return validate_chunk(traces, workers)
    merged, best = _Merged(), {}
    for a in range(0, len(traces), CHUNK):
        res, b = validate_chunk(traces[a:a + CHUNK], workers)
        merged.add(res)
        for tid, v in b.items():
            best[a + tid] = v
    return merged, best


def validate_chunk(traces, workers=8):
    """TLC judges the traces; returns (tlc result, {tid: [[step, clause], ...]}) choosing
    for every trace the candidate object history (branch) with the fewest clauses."""
    tf = os.path.join(common.scratch(), f"traces-{time.time_ns()}.json")
    with open(tf, "w") as fh:
        json.dump([{k: v for k, v in t.items() if k != "meta"} for t in traces], fh)
    res = tlc.run("TdfSessionTrace.tla", "Trace_session.cfg", workers=workers, env={"TRACE_FILE": tf}, check=False,
                  timeout=3600)
    os.unlink(tf)
    if res.error or res.violation:
        raise common.Machinery(f"trace validation did not run to completion: {res.violation or ''} {res.error or ''}\n"
                               + res.out[-2500:])
    best = {}
    for line in res.out.splitlines():
        if not line.startswith('"END '):
            continue
        obj = json.loads(json.loads(line)[4:])
        tid = obj["tid"]
        cl = sorted(obj["cl"])
        if tid not in best or len(cl) < len(best[tid][1]):
            best[tid] = (obj["l"], cl)
    if len(best) != len(traces):
        raise common.Machinery(f"verdicts for {len(best)} of {len(traces)} traces\n" + res.out[-2000:])
    return res, best


def run_campaign(run, name, budget, seed, focus_prop, exhaustive_tour=False, mc=True):
    rng = random.Random(seed * 7919 + hash(name) % 1000)
    init, adj, descs, mcres = graph(name, need_mc=mc)
    if mcres is not None:
        run.add_tlc(f"MC {CAMPAIGNS[name]['cfg']}", mcres)
        zero = [a for a, c in mcres.coverage.items() if c[1] == 0 and a not in ("Init",)]
        if zero:
            run.cov["notes"].append(f"{name}: actions never enabled: {zero}")
    st = tours.stats(adj)
    workdir = os.path.join(common.scratch(), f"files-{name}")
    os.makedirs(workdir, exist_ok=True)
    traces = []
    steps = 0
    if exhaustive_tour:
        gens = [tours.tours(init, adj, rng, max_len=60)]
    else:
        gens = [tours.tours(init, adj, rng, max_len=60, select=sel, max_edges=cap) for sel, cap in focus_for(focus_prop, budget)]
        # whatever the focus: every accepted mutation as the FIRST call on every kind of initial file
        # (holes, foreign blocks, table order # storage order, unused slots, trailing garbage)
        fresh = set()
        for d0, l0 in adj.get(init, ()):
            if l0.startswith("Setup"):
                for d1, l1 in adj.get(d0, ()):
                    if "allow_write" in l1:
                        fresh.update(d2 for d2, l2 in adj.get(d1, ()) if l2.startswith("Enter"))
        if fresh:
            gens.append(tours.tours(init, adj, rng, max_len=8,
                                    select=lambda s_, d_, lab: s_ in fresh and lab.startswith(("Ok(", "SetOk("))))
        # ... and every refused duplicate as the first call, on initial files in which the writable types
        # are present in a format the library cannot decode (the duplicate check must not need the block)
        undec_from = len(gens)
        if fresh:
            gens.append(tours.tours(init, adj, rng, max_len=8,
                                    select=lambda s_, d_, lab: s_ in fresh and '"duplicate"' in lab and '"add"' in lab))
    if not exhaustive_tour and name == "modes":
        gens.append(stale_reader_paths(init, adj))
    k = 0
    for gi, g in enumerate(gens):
        for labs in g:
            k += 1
            cs = seed * 100003 + k
            if not exhaustive_tour and fresh and gi == undec_from:
                cs = cs - cs % 6 + 4       # the concretisation with undecodable formats (plan.Concretizer)
            tr = execute_tour(name, labs, cs, workdir, descs)
            traces.append(tr)
            steps += len(tr["steps"])
    res, verdicts = validate(traces)
    run.cov["traces_validated_against_impl"] += len(traces)
    run.cov["evaluations"] += steps
    run.cov["tlc_runs"].append(dict(name=f"TRACE {name}", traces=len(traces), steps=steps, **res.summary()))
    run.cov.setdefault("graphs", {})[name] = dict(nodes=st["nodes"], edges=st["edges"], tour_steps=steps,
                                                  exhaustive_tour=exhaustive_tour)
    # which kinds of call the tours made (the primary rejection cause of every refusal edge)
    kinds = run.cov.setdefault("calls_by_kind", {})
    for tr in traces:
        for lab in tr["meta"]["labels"]:
            m = re.search(r'"(nocontext|readonly|missing|duplicate|full|hole|badblock|badcomment)"\)$', lab)
            key = ("refused:" + m.group(1)) if m else lab.split("(")[0].split(" ")[0]
            kinds[key] = kinds.get(key, 0) + 1
    return traces, verdicts


def run_random(run, seed, count, length):
    """random histories in real geometry (N up to 14, all nine writable types), judged by the same trace spec"""
    workdir = os.path.join(common.scratch(), "files-random")
    os.makedirs(workdir, exist_ok=True)
    traces = []
    for k in range(count):
        rng = random.Random(seed * 1000003 + k)
        world = session.World()
        path = os.path.join(workdir, f"r{k}.tdf")
        types, dec, sched = plan.random_history(rng, world, path, length)
        try:
            tr = session.run_trace(path, world, types, dec, sched,
                                   meta=dict(campaign="random", labels=[json.dumps(o, sort_keys=True) for o in sched],
                                             conc_seed=seed * 1000003 + k, schedule=sched, length=length))
        finally:
            if os.path.exists(path):
                os.unlink(path)
        traces.append(tr)
    res, verdicts = validate(traces)
    steps = sum(len(t["steps"]) for t in traces)
    run.cov["traces_validated_against_impl"] += len(traces)
    run.cov["evaluations"] += steps
    run.cov["tlc_runs"].append(dict(name="TRACE random histories (N<=14, nine writable types)", traces=len(traces), steps=steps,
                                    **res.summary()))
    return traces, verdicts


def run_boundary(run, only=None):
    """directed histories whose moved tail is an exact multiple of the sizes a copy loop or a buffer works in
    (512 .. 2**20 bytes), judged by the same trace spec (plan.boundary_history)"""
    workdir = os.path.join(common.scratch(), "files-boundary")
    os.makedirs(workdir, exist_ok=True)
    traces = []
    for k in (range(plan.BOUNDARY_CASES) if only is None else [only]):
        world = session.World()
        path = os.path.join(workdir, f"b{k}.tdf")
        types, dec, sched = plan.boundary_history(k, world, path)
        try:
            tr = session.run_trace(path, world, types, dec, sched,
                                   meta=dict(campaign="boundary", labels=[json.dumps(o, sort_keys=True) for o in sched],
                                             conc_seed=k, schedule=sched, length=len(sched)))
        finally:
            if os.path.exists(path):
                os.unlink(path)
        traces.append(tr)
    res, verdicts = validate(traces)
    steps = sum(len(t["steps"]) for t in traces)
    run.cov["traces_validated_against_impl"] += len(traces)
    run.cov["evaluations"] += steps
    run.cov["tlc_runs"].append(dict(name="TRACE boundary-size histories (moved tail = k * 512 .. 2**20 bytes)", traces=len(traces),
                                    steps=steps, **res.summary()))
    return traces, verdicts


def minimise(tr, clause, budget=14):
    """Greedy delta-debugging of a rejected tour: drop chunks of calls (never the Setup) as long as
    TLC still reports `clause` for the re-executed history.  Returns the shortened label list."""
    meta = tr["meta"]
    if meta["campaign"] == "random":
        return None
    labs = list(meta["labels"])
    init, adj, descs, _ = graph(meta["campaign"])
    chunk = max(1, (len(labs) - 1) // 2)
    runs = 0
    while chunk >= 1 and runs < budget:
        i = 1
        shrunk = False
        while i < len(labs) and runs < budget:
            cand = labs[:i] + labs[i + chunk:]
            if len(cand) < 2:
                i += chunk
                continue
            runs += 1
            try:
                t2 = execute_tour(meta["campaign"], cand, meta["conc_seed"], common.scratch(), descs)
                _, v = validate([t2], workers=2)
                ok = any(c[1] == clause for c in v[1][1])
            except Exception:  # noqa: BLE001
                ok = False
            if ok:
                labs = cand
                shrunk = True
            else:
                i += chunk
        if not shrunk or chunk == 1:
            chunk //= 2
    return labs


def report(run, traces, verdicts, prop):
    others = {}
    for tr in traces:
        sf = tr.get("meta", {}).get("setup_failed")
        if sf:
            run.violation(f"{prop}:valid_block_refused the library raised while the driver was building a valid block for the next call "
                          f"(campaign {tr['meta'].get('campaign')}, after {len(tr['steps'])} calls): {sf}",
                          dict(kind="container", campaign=tr["meta"].get("campaign"), labels=tr["meta"].get("labels"),
                               conc_seed=tr["meta"].get("conc_seed"), clauses=[], setup_failed=sf))
    for tid, (upto, cl) in verdicts.items():
        tr = traces[tid - 1]
        mine = [c for c in cl if c[1].startswith(prop + ":")]
        for c in cl:
            if not c[1].startswith(prop + ":"):
                others[c[1]] = others.get(c[1], 0) + 1
        if mine:
            step = mine[0][0]
            ev = tr["steps"][step - 1]
            what = (f"{mine[0][1]} at step {step} of a {len(tr['steps'])}-step history "
                    f"(campaign {tr['meta']['campaign']}, op {ev['op']} type {ev['t']}, raised={not ev['res']['ok']}); "
                    f"all clauses of this trace: {sorted(set(c[1] for c in cl))}")
            small = None
            if not run.violations:   # shrink the first rejected history of a run
                try:
                    small = minimise(tr, mine[0][1])
                except Exception:  # noqa: BLE001
                    small = None
            if small and len(small) < len(tr["meta"]["labels"]):
                what += f"; minimised to {len(small) - 1} calls: {small[1:][:8]}"
            run.violation(what, dict(kind="container", campaign=tr["meta"]["campaign"], labels=small or tr["meta"]["labels"],
                                     original_labels=tr["meta"]["labels"],
                                     conc_seed=tr["meta"]["conc_seed"], clauses=cl, failing_step=step,
                                     event={k: v for k, v in ev.items() if k != "obs"}, obs=ev["obs"]))
    if others:
        run.cov.setdefault("clauses_of_other_properties", {}).update(others)


def sample_of(tr, n=6):
    return dict(campaign=tr["meta"]["campaign"], labels=tr["meta"]["labels"][:n],
                first_steps=[dict(op=e["op"], type=e["t"], ok=e["res"]["ok"], table=e["obs"]["disk"]["table"])
                             for e in tr["steps"][:3]])


def check(prop, tier, seed, replay=None):
    run = common.Run(prop, tier, seed)
    run.assumptions += [
        "initial files: table order may differ from storage order, holes and trailing garbage allowed, but free slots "
        "point at or beyond the end of the last live range (as BTS and the library write them)",
        "payload identity is established by byte equality with the encodings captured before each call",
        "single process, no crashes or I/O errors",
    ]
    if replay:
        run.is_replay = True
        with open(replay) as fh:
            rp = json.load(fh)["replay"]
        if rp["campaign"] == "random":
            rng = random.Random(rp["conc_seed"])
            world = session.World()
            path = os.path.join(common.scratch(), "replay.tdf")
            types, dec, sched = plan.random_history(rng, world, path, len(rp["labels"]))
            tr = session.run_trace(path, world, types, dec, sched, meta=dict(campaign="random", labels=rp["labels"],
                                                                            conc_seed=rp["conc_seed"]))
        elif rp["campaign"] == "boundary":
            world = session.World()
            path = os.path.join(common.scratch(), "replay.tdf")
            types, dec, sched = plan.boundary_history(rp["conc_seed"], world, path)
            tr = session.run_trace(path, world, types, dec, sched, meta=dict(campaign="boundary", labels=rp["labels"],
                                                                            conc_seed=rp["conc_seed"]))
        else:
            init, adj, descs, _ = graph(rp["campaign"])
            tr = execute_tour(rp["campaign"], rp["labels"], rp["conc_seed"], common.scratch(), descs)
        res, verdicts = validate([tr])
        run.cov["traces_validated_against_impl"] = 1
        run.cov["evaluations"] = len(tr["steps"])
        run.add_tlc("TRACE replay", res, exhaustive=False)
        run.sample(sample_of(tr))
        report(run, [tr], verdicts, prop)
        return run.finish()
    COVERAGE[0] = tier == "thorough"
    if tier == "quick":
        plan_ = [("n1", 400, False, True), ("n2", 1500, False, True), ("n3", 1200, False, False),
                 ("n4", 600, False, False)]
        if prop == "C11":
            # reads with no context open (presence checks, getters) next to the two alternating objects
            plan_.append(("modes", 1200, False, True))
        if prop == "C08":
            plan_ = [("modes", 3000, True, True), ("n2", 1500, False, True), ("n1", 300, False, True)]
    else:
        plan_ = [("n1", 0, True, True), ("n2", 0, True, True), ("modes", 0, True, True), ("n3", 60000, False, True),
                 ("n4", 60000, False, True)]
    total_distinct = 0
    for name, budget, full, mc in plan_:
        traces, verdicts = run_campaign(run, name, budget, seed, prop, exhaustive_tour=full, mc=mc)
        for tr in traces[:2]:
            run.sample(sample_of(tr))
        report(run, traces, verdicts, prop)
        total_distinct += len({json.dumps(t["meta"]["labels"]) for t in traces})
    traces, verdicts = run_random(run, seed, 40 if tier == "quick" else 1500, 45)
    for tr in traces[:1]:
        run.sample(dict(campaign="random", first_calls=tr["meta"]["schedule"][:6]))
    report(run, traces, verdicts, prop)
    total_distinct += len(traces)
    traces, verdicts = run_boundary(run)
    for tr in traces[:1]:
        run.sample(dict(campaign="boundary", first_calls=tr["meta"]["schedule"][:6]))
    report(run, traces, verdicts, prop)
    total_distinct += len(traces)
    if prop == "C10":
        # beyond the listed properties: two objects open on one file (spec/TdfHandles.tla); C10 is the
        # property about "the table held by the open object", this is its neighbourhood.  Only notes.
        try:
            from . import handles
            handles.campaign(run, seed, 150 if tier == "quick" else 20000)
        except Exception as x:  # noqa: BLE001
            run.cov["notes"].append(f"handles campaign did not run to completion: {type(x).__name__}: {str(x)[:200]}")
    if prop == "C03":
        # beyond the listed properties: the crash points of every mutation (spec/TdfTorn.tla); C03 is the
        # property about files staying well-formed, this is what a crash in the middle of a call leaves.  Only notes.
        try:
            from . import torn
            torn.campaign(run, seed, 60 if tier == "quick" else 3000)
        except Exception as x:  # noqa: BLE001
            run.cov["notes"].append(f"torn campaign did not run to completion: {type(x).__name__}: {str(x)[:200]}")
    run.cov["distinct_nontrivial"] = total_distinct
    run.cov["rule"] = ("transition tours over TLC's labelled state graph of MCSession (every selected edge = one "
                       "(model state, call) pair, executed on real files and judged by TLC against TdfSessionTrace); "
                       "a tour is non-trivial if it contains at least one call after Setup; distinct = distinct label sequences")
    run.cov["exhaustive"] = False
    run.cov["invariants"] = INVARIANT_OF.get(prop, [])
    return run.finish()
