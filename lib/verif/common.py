"""Shared plumbing of all checks: tiers, seeds, scratch space, evidence files,
known findings, VIOLATION lines, exit codes (0 held / 1 violation / 2 machinery)."""
import atexit
import hashlib
import json
import os
import shutil
import sys
import tempfile
import time

from . import VERIF, SPEC

EVIDENCE_DIR = os.path.join(VERIF, "evidence")
REPLAY_DIR = os.path.join(VERIF, "replays")
BUILD_DIR = os.path.join(VERIF, "build")


class Machinery(Exception):
    """the check itself failed (never reported as a property violation)"""


_scratch = None


def scratch():
    global _scratch
    if _scratch is None:
        base = os.environ.get("VERIF_TMP") or tempfile.gettempdir()
        _scratch = tempfile.mkdtemp(prefix="verif-", dir=base)
        os.environ["VERIF_TMP"] = _scratch  # TLC metadirs go below it
        atexit.register(lambda: shutil.rmtree(_scratch, ignore_errors=True))
    return _scratch


def spec_hash(*names):
    h = hashlib.sha256()
    for n in sorted(names):
        with open(os.path.join(SPEC, n), "rb") as fh:
            h.update(n.encode() + b"\0" + fh.read())
    return h.hexdigest()[:16]


def build_path(name):
    os.makedirs(BUILD_DIR, exist_ok=True)
    return os.path.join(BUILD_DIR, name)


def known_findings():
    p = os.path.join(VERIF, "known_findings.json")
    try:
        with open(p) as fh:
            return [f for f in json.load(fh)["findings"]]
    except FileNotFoundError:
        return []


class Run:
    """one invocation of one property's check"""

    def __init__(self, prop, tier, seed, level="model_checking"):
        self.prop = prop
        self.tier = tier
        self.seed = seed
        self.level = level
        self.t0 = time.time()
        self.cov = dict(states=0, transitions=0, traces_validated_against_impl=0, samples=[], exhaustive=False,
                        evaluations=0, distinct_nontrivial=0, rule="", tlc_runs=[], notes=[])
        self.assumptions = []
        self.violations = []  # dicts with at least 'what'
        self.known_hits = []
        self.is_replay = False   # a replay re-judges one recorded case: it does not rewrite the evidence file

    def add_tlc(self, name, res, exhaustive=True):
        self.cov["states"] += res.distinct
        self.cov["transitions"] += res.generated
        self.cov["tlc_runs"].append(dict(name=name, exhaustive=exhaustive, **res.summary()))

    def sample(self, obj, limit=6):
        if len(self.cov["samples"]) < limit:
            self.cov["samples"].append(obj)

    def violation(self, what, replay_obj):
        """record a violation unless an OPEN known finding matches it"""
        for f in known_findings():
            if f.get("status") == "open" and f.get("property") == self.prop and f.get("match") and f["match"] in what:
                if f["id"] not in self.known_hits:
                    self.known_hits.append(f["id"])
                    print(f"KNOWN-FINDING: property={self.prop} {f['what']}")
                return
        if len(self.violations) >= 5:
            self.suppressed = getattr(self, "suppressed", 0) + 1
            return
        os.makedirs(REPLAY_DIR, exist_ok=True)
        path = os.path.join(REPLAY_DIR, f"{self.prop}-{self.seed}-{len(self.violations)}.json")
        with open(path, "w") as fh:
            json.dump(dict(property=self.prop, seed=self.seed, tier=self.tier, what=what, replay=replay_obj), fh, indent=1,
                      default=str)
        self.violations.append(dict(what=what, replay=path))
        print(f"VIOLATION property={self.prop} replay={path}")
        print(f"  {what}")

    def finish(self):
        os.makedirs(EVIDENCE_DIR, exist_ok=True)
        cov = self.cov
        if not cov["samples"]:
            cov["samples"] = ["(no sample recorded)"]
        ev = dict(property_id=self.prop, tier=self.tier, seed=self.seed, level=self.level, coverage=cov,
                  assumptions=self.assumptions, wall_s=round(time.time() - self.t0, 2), violations=len(self.violations))
        if not self.is_replay:
            tmp = os.path.join(EVIDENCE_DIR, f"{self.prop}.json.tmp")
            with open(tmp, "w") as fh:
                json.dump(ev, fh, indent=1, default=str)
            os.replace(tmp, os.path.join(EVIDENCE_DIR, f"{self.prop}.json"))
        n = len(self.violations)
        print(f"{self.prop} {self.tier} seed={self.seed}: states={cov['states']} transitions={cov['transitions']} "
              f"impl_traces={cov['traces_validated_against_impl']} evaluations={cov['evaluations']} "
              f"violations={n} wall={ev['wall_s']}s")
        return 1 if n else 0


def main_wrapper(fn):
    try:
        rc = fn()
    except Machinery as x:
        print(f"MACHINERY-FAILURE: {x}", file=sys.stderr)
        rc = 2
    except Exception as x:  # noqa: BLE001
        import traceback

        traceback.print_exc()
        print(f"MACHINERY-FAILURE: {type(x).__name__}: {x}", file=sys.stderr)
        rc = 2
    sys.exit(rc)
