"""C13: fixed-width text fields.  TLC enumerates every abstract text (four
character classes) for small widths with the verdict and bytes the
specification (spec/TdfStrings.tla) assigns; every abstract text is concretised
with many concrete characters and replayed on BTSString at the abstract width
and - stretched with filler so that the distance to the boundary is kept - at
the real widths 32 and 256, and through the label / comment fields of real
blocks and table entries."""
import io
import itertools
import json
import os
import random

from . import common, tlc, blocks
from .values import CP1252
from basictdf.tdfTypes import BTSString
from basictdf.basictdf import TdfEntry
from basictdf.tdfBlock import BlockType
from datetime import datetime

ASCII = [chr(i) for i in range(1, 128)]
HIGH = [c for c in CP1252 if ord(c.encode("cp1252")) >= 0x80]
UNENC = ["Ā", "中", "\U0001F600", "\x81", "\x8d", "\x9d", "₭", "Δ", "�", "\udce9", "\udc81", "\ud800",
         "\u212a", "\u212b", "\u037e", "\u0301", "\u030c"]      # (compose to cp1252 characters under NFC / NFKC: still not encodable as given)
UNDEFINED_BYTES = {0x81, 0x8D, 0x8F, 0x90, 0x9D}


def vectors(maxw):
    cfg = os.path.join(common.scratch(), "strings.cfg")
    with open(cfg, "w") as fh:
        fh.write(f"SPECIFICATION Spec\nCONSTANTS\n  MaxW = {maxw}\nINVARIANT StrExact\nINVARIANT StrRoundTrip\n"
                 "INVARIANT StrRefuse\nCONSTRAINT Emit\nCHECK_DEADLOCK FALSE\n")
    res = tlc.run("TdfStrings.tla", cfg, workers=4, check=False)
    if res.violation or res.error:
        raise common.Machinery(f"TdfStrings: {res.violation or res.error}\n{res.out[-1500:]}")
    seen, out = set(), []
    for line in res.out.splitlines():
        if line.startswith('"STR '):
            v = json.loads(json.loads(line)[4:])
            key = (v["w"], tuple(v["s"]))
            if key not in seen:
                seen.add(key)
                out.append(v)
    if len(out) != res.distinct:
        raise common.Machinery(f"{len(out)} string vectors for {res.distinct} states")
    return res, out


def concretise(classes, rng, pick=None):
    chars = []
    for i, c in enumerate(classes):
        if c == 0:
            chars.append("\0")
        elif c == 1:
            chars.append(pick(1, i) if pick else rng.choice(ASCII))
        elif c == 2:
            chars.append(pick(2, i) if pick else rng.choice(HIGH))
        else:
            chars.append(rng.choice(UNENC))
    return chars


def expected_bytes(text, width):
    raw = text.encode("cp1252") + b"\0"
    return raw + b"\0" * (width - len(raw))


def check_one(width, text, ok):
    """-> list of clause strings"""
    bad = []
    try:
        got = BTSString.write(width, text)
        raised = None
    except Exception as x:  # noqa: BLE001
        got, raised = None, x
    if not ok:
        if raised is None:
            bad.append(f"C13:invalid_text_accepted width {width} len {len(text)} -> {len(got)} bytes")
        elif not isinstance(raised, ValueError):
            bad.append(f"C13:refusal_not_valueerror {type(raised).__name__}")
        # the stream variant must not write anything either
        s = io.BytesIO()
        try:
            BTSString.bwrite(s, width, text)
        except Exception:  # noqa: BLE001
            pass
        if s.getvalue() and len(s.getvalue()) != width:
            bad.append(f"C13:partial_write {len(s.getvalue())} bytes")
        return bad
    if raised is not None:
        bad.append(f"C13:valid_text_refused width {width} len {len(text)}: {type(raised).__name__}")
        return bad
    exp = expected_bytes(text, width)
    if len(got) != width:
        bad.append(f"C13:wrong_width wrote {len(got)} bytes into a field of {width}")
    elif got != exp:
        bad.append("C13:wrong_bytes (terminator, padding or encoding)")
    s = io.BytesIO()
    BTSString.bwrite(s, width, text)
    s.write(b"NEXT")
    if s.getvalue() != exp + b"NEXT":
        bad.append("C13:spills_into_next_field")
    if "\0" not in text:
        try:
            back = BTSString.read(width, exp)
            s2 = io.BytesIO(exp + b"NEXT")
            back2 = BTSString.bread(s2, width)
            if back != text or back2 != text:
                bad.append(f"C13:roundtrip_differs {back!r:.40} vs {text!r:.40}")
            if s2.read() != b"NEXT":
                bad.append("C13:read_consumed_wrong_width")
        except Exception as x:  # noqa: BLE001
            bad.append(f"C13:read_raises {type(x).__name__}")
    return bad


def stretch(chars, w, W):
    """same distance to the boundary at width W: filler goes after the first character"""
    fill = "f" * (W - w)
    return "".join(chars[:1]) + fill + "".join(chars[1:])


def read_side(rng, thorough):
    """all byte strings of width <= 3 over a small alphabet, sampled at 32 / 256"""
    bad = []
    n = 0
    alpha = [0x00, 0x41, 0xE9, 0x80, 0xFF]
    for w in (1, 2, 3):
        for bs in itertools.product(alpha, repeat=w):
            raw = bytes(bs)
            cut = raw.find(b"\0")
            exp = (raw if cut < 0 else raw[:cut]).decode("cp1252")
            n += 1
            try:
                got = BTSString.read(w, raw)
                if got != exp:
                    bad.append(f"C13:read_differs {raw!r} -> {got!r} expected {exp!r}")
            except Exception as x:  # noqa: BLE001
                bad.append(f"C13:read_raises {raw!r}: {type(x).__name__}")
    for W in (32, 256):
        for _ in range(400 if thorough else 60):
            k = rng.choice([0, 1, W // 2, W - 2, W - 1, W])
            body = bytes(rng.choice([b for b in range(1, 256) if b not in UNDEFINED_BYTES]) for _ in range(k))
            tail = bytes(rng.randrange(256) for _ in range(W - k - 1)) if k < W else b""
            raw = (body + b"\0" + tail)[:W] if k < W else body
            exp = body.decode("cp1252")
            n += 1
            try:
                got = BTSString.read(W, raw)
                if got != exp:
                    bad.append(f"C13:read_differs width {W} text length {k}: got length {len(got)}")
            except Exception as x:  # noqa: BLE001
                bad.append(f"C13:read_raises width {W} text length {k}: {type(x).__name__}")
    return n, bad


FIELD_SETTERS = {
    5: (256, lambda b, t: setattr(b.tracks[-1], "label", t)),
    11: (256, lambda b, t: setattr(list(b)[-1], "label", t)),
    12: (256, lambda b, t: setattr(b.tracks[0], "label", t)),
    7: (256, lambda b, t: setattr(b[0], "label", t)),
    16: (256, lambda b, t: setattr(b.events[-1], "label", t)),
    6: (32, lambda b, t: setattr(b.channels[0], "lens_name", t)),
    60: (32, lambda b, t: setattr(b.channels[-1], "camera_type", t)),
    61: (32, lambda b, t: setattr(b.channels[-1], "camera_name", t)),
}


def through_fields(rng):
    """labels and comments of real blocks / entries at the boundary"""
    bad = []
    n = 0
    for key, (W, setter) in FIELD_SETTERS.items():
        rt = 6 if key in (60, 61) else key
        for text, ok in [("x" * (W - 1), True), ("é" * (W - 1), True), ("", True), ("x" * W, False), ("x" * (W + 1), False),
                         ("okĀ", False), ("€" * (W - 2) + "中", False)]:
            n += 1
            blk = blocks.make_block(rt, 2, 7)
            setter(blk, text)
            data = blocks.try_encode(blk)
            if ok:
                if data is None or len(data) != blk.nBytes:
                    bad.append(f"C13:valid_label_refused type {rt} width {W} length {len(text)}")
                    continue
                back = type(blk)._build(io.BytesIO(data), blk.format.value)
                if blocks.encode(back) != data:
                    bad.append(f"C13:label_roundtrip type {rt}")
            else:
                if data is not None:
                    bad.append(f"C13:invalid_label_accepted type {rt} width {W} length {len(text)} ({len(data)} bytes, nBytes {blk.nBytes})")
                else:
                    try:
                        blocks.encode(blk)
                    except ValueError:
                        pass
                    except Exception as x:  # noqa: BLE001
                        bad.append(f"C13:refusal_not_valueerror type {rt}: {type(x).__name__}")
    for text, ok in [("c" * 255, True), ("", True), ("c" * 256, False), ("badĀ", False)]:
        n += 1
        e = TdfEntry(BlockType.data3D, 1, 4096, 10, datetime.fromtimestamp(1), datetime.fromtimestamp(2),
                     datetime.fromtimestamp(3), text)
        s = io.BytesIO()
        try:
            e._write(s)
            wrote = True
        except ValueError:
            wrote = False
        except Exception as x:  # noqa: BLE001
            wrote = False
            bad.append(f"C13:refusal_not_valueerror entry comment: {type(x).__name__}")
        if ok and (not wrote or len(s.getvalue()) != 288 or TdfEntry._build(io.BytesIO(s.getvalue())).comment != text):
            bad.append(f"C13:comment_roundtrip length {len(text)}")
        if not ok and wrote:
            bad.append(f"C13:invalid_comment_accepted length {len(text)}")
    return n, bad


def check(prop, tier, seed, replay=None):
    run = common.Run(prop, tier, seed)
    thorough = tier == "thorough"
    rng = random.Random(seed + 13)
    res, vecs = vectors(5 if thorough else 4)
    run.add_tlc("MC TdfStrings", res)
    run.cov["exhaustive"] = True
    n_eval = 0
    reps = 6 if thorough else 2
    for vi, v in enumerate(vecs):
        for rep in range(reps):
            chars = concretise(v["s"], rng)
            for W in (v["w"], 32, 256):
                text = stretch(chars, v["w"], W)
                n_eval += 1
                bad = check_one(W, text, v["ok"])
                if bad and len(run.violations) < 5:
                    run.violation(f"{bad[0]} (abstract text {v['s']} at width {v['w']}, real width {W})",
                                  dict(kind="string", width=W, text=[ord(c) for c in text], ok=v["ok"]))
        if vi % 400 == 0:
            run.sample(dict(width=v["w"], classes=v["s"], accepted=v["ok"], bytes=v["bytes"]))
    # every encodable character at first / middle / last position
    for W in ((2, 32, 256) if thorough else (2, 32)):
        for ch in CP1252:
            for pos in ("first", "mid", "last"):
                n = W - 1
                if n == 1:
                    text = ch
                else:
                    text = {"first": ch + "a" * (n - 1), "mid": "a" * (n // 2) + ch + "a" * (n - n // 2 - 1),
                            "last": "a" * (n - 1) + ch}[pos]
                n_eval += 1
                bad = check_one(W, text, True)
                bad += check_one(W, text + "z", False)
                if bad and len(run.violations) < 5:
                    run.violation(f"{bad[0]} (character U+{ord(ch):04X} {pos} at width {W})",
                                  dict(kind="string", width=W, text=[ord(c) for c in text], ok=True))
    # the verdict is a function of (width, text) alone: the same text at another width, and the
    # vectors again in another order, must get the verdict they got in isolation
    cross = []
    for n in [0, 1, 30, 31, 32, 33, 100, 254, 255, 256, 257]:
        for ch in ("x", "é"):
            cross.append(ch * n)
    order = [(W, t) for t in cross for W in (256, 32, 2, 32, 256)] + [(W, t) for t in cross for W in (2, 32, 256)]
    rng.shuffle(cross)
    order += [(W, t) for W in (256, 32) for t in cross]
    for W, text in order:
        ok = len(text) < W
        n_eval += 1
        bad = check_one(W, text, ok)
        if bad and len(run.violations) < 5:
            run.violation(f"{bad[0]} (text of length {len(text)} at width {W} after the same text at other widths)",
                          dict(kind="string-history", width=W, text=[ord(c) for c in text], ok=ok))
    # texts that look like templates, paths or markup: a refusal is a ValueError whatever the text says
    for W in (32, 256):
        for frag in ("50%s", "%d", "100%", "%(x)s", "{0}", "{}", "\\n", "%-5f %s %s %s"):
            for text, ok in (((frag + " ") * W, False), ((frag * W)[: W - 1], True), ("x" * (W - len(frag)) + frag, False)):
                n_eval += 1
                bad = check_one(W, text, ok)
                if bad and len(run.violations) < 5:
                    run.violation(f"{bad[0]} (text made of {frag!r}, length {len(text)}, width {W})",
                                  dict(kind="string-template", width=W, text=[ord(c) for c in text], ok=ok))
    n_r, bad_r = read_side(rng, thorough)
    n_f, bad_f = through_fields(rng)
    n_eval += n_r + n_f
    for b in (bad_r + bad_f)[:5]:
        run.violation(b, dict(kind="string-read-or-field", what=b))
    run.cov["traces_validated_against_impl"] = n_eval
    run.cov["evaluations"] = n_eval
    run.cov["distinct_nontrivial"] = len(vecs)
    run.cov["rule"] = ("every abstract text over 4 character classes up to length w+1 for w in 1..MaxW is a vector with the "
                       "verdict TLC computed; each is concretised with random members of its classes at its own width and, "
                       "stretched, at 32 and 256; plus every cp1252 character at first/middle/last position, all byte strings "
                       "of width <= 3 on the read side, and boundary labels / comments through real blocks and entries")
    return run.finish()
