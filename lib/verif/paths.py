"""C17: Tdf.new / Tdf.copy / opening, on real paths, along transition tours of
spec/TdfPaths.tla; judged by TLC against spec/TdfPathsTrace.tla."""
import json
import os
import pickle
import random
import re
import shutil
import time

from . import common, refio, tlc, tours, blocks, session
from basictdf import Tdf

SPEC_FILES = ["TdfPathsCore.tla", "TdfPaths.tla", "MC_paths.cfg"]
NP = 3


def graph(need_mc=False):
    key = common.spec_hash(*SPEC_FILES)
    cache = common.build_path(f"graph-paths-{key}.pickle")
    res = None
    if not os.path.exists(cache) or need_mc:
        dot = os.path.join(common.scratch(), "paths.dot")
        res = tlc.run("TdfPaths.tla", "MC_paths.cfg", workers=8, dump_dot=dot, coverage=True)
        if res.violation:
            raise common.Machinery(f"design model MC_paths violates {res.violation}:\n{res.out[-3000:]}")
        init, adj = tours.parse_dot(dot)
        os.unlink(dot)
        with open(cache + f".{os.getpid()}.tmp", "wb") as fh:
            pickle.dump(dict(init=init, adj=dict(adj)), fh)
        os.replace(cache + f".{os.getpid()}.tmp", cache)
    with open(cache, "rb") as fh:
        g = pickle.load(fh)
    return g["init"], g["adj"], res


def parse_label(lab):
    m = re.match(r"Setup\(<<(.*)>>\)", lab)
    if m:
        kinds = re.findall(r'kind \|-> "(\w+)"', m.group(1))
        return dict(op="setup", kinds=kinds)
    m = re.match(r"(New|Open|Enter|Read|Mutate)\((\d+)\)", lab)
    if m:
        return dict(op=m.group(1).lower(), p=int(m.group(2)))
    m = re.match(r"(M?)Copy\((\d+),\s*(\d+)\)", lab)
    if m:
        return dict(op="mcopy" if m.group(1) else "copy", p=int(m.group(2)), q=int(m.group(3)))
    m = re.match(r'Do\(\[op \|-> "(\w+)", p \|-> (\d+)(?:, q \|-> (\d+))?\]\)', lab)
    if m:
        d = dict(op=m.group(1), p=int(m.group(2)))
        if m.group(3):
            d["q"] = int(m.group(3))
        return d
    raise common.Machinery(f"unparsed label {lab!r}")


class PathWorld:
    def __init__(self, root, seed):
        self.root = root
        self.rng = random.Random(seed)
        self.shas = {}
        self.extra = []
        self.counter = 0
        os.makedirs(root, exist_ok=True)
        # the paths live in two folders; in every third history targets are given RELATIVE to the
        # working directory (which is neither folder)
        for sub in ("a", "b"):
            os.makedirs(os.path.join(root, sub), exist_ok=True)
        self.paths = {i: os.path.join(root, "ab"[i % 2], f"p{i}_{seed}.tdf") for i in range(1, NP + 1)}
        self.relative = seed % 3 == 1
        if seed % 2:
            # the third path is the first one without its extension: three different paths all the same
            self.paths[3] = self.paths[1][:-4]

    def sha_id(self, sha):
        if sha not in self.shas:
            self.shas[sha] = len(self.shas) + 1
        return self.shas[sha]

    def setup(self, kinds):
        seed_path = os.path.join(self.root, "seedfile.tdf")
        if os.path.exists(seed_path):
            os.unlink(seed_path)
        t = Tdf.new(seed_path)
        with t.allow_write() as f:
            f.add_block(blocks.make_block(16, 2, 77, 1500000000, 1500000100))
            if self.rng.random() < 0.5:
                # a file that ends in several pages of zero bytes (a flat signal)
                from basictdf.tdfEMG import EMG, EMGTrack
                import numpy as np
                flat = EMG(1000, 5000)
                flat.addSignal(EMGTrack("flat", np.zeros(5000, "<f4")))
                f.add_block(flat)
        tdf_bytes = open(seed_path, "rb").read()
        os.unlink(seed_path)
        junk = b"this is not a TDF file " + bytes(self.rng.randrange(256) for _ in range(50))
        if self.rng.random() < 0.5:
            # a TDF file whose signature is damaged: everything behind it still parses
            k = [0, 15, 9, 12][self.rng.randrange(4)]        # first, last, or a middle byte of the 16
            junk = tdf_bytes[:k] + bytes([tdf_bytes[k] ^ 0x40]) + tdf_bytes[k + 1:]
        for i, k in enumerate(kinds, start=1):
            p = self.paths[i]
            if os.path.lexists(p):
                os.unlink(p)
            if k == "empty":
                open(p, "wb").close()
            elif k == "nontdf":
                open(p, "wb").write(junk)
            elif k == "tdf":
                if self.rng.random() < 0.3:
                    # the path is a symbolic link to the file (a copy is a file of its own all the same)
                    real = p + ".real"
                    open(real, "wb").write(tdf_bytes)
                    os.symlink(real, p)
                    self.extra.append(real)
                else:
                    open(p, "wb").write(tdf_bytes)

    def observe(self):
        out = []
        for i in range(1, NP + 1):
            p = self.paths[i]
            o = dict(kind="absent", sha=0, sigok=False, version=0, n=0, flen=0, table=[])
            if os.path.exists(p):
                raw = open(p, "rb").read()
                if len(raw) == 0:
                    o["kind"] = "empty"
                else:
                    pr = refio.parse(raw)
                    o["sha"] = self.sha_id(pr.sha)
                    o["flen"] = len(raw)
                    if pr.sigok:
                        o["kind"] = "tdf"
                        o["sigok"] = True
                        o["version"] = pr.version
                        o["n"] = pr.n
                        o["table"] = [[e["type"], e["format"], e["offset"], e["size"]] for e in pr.table]
                    else:
                        o["kind"] = "nontdf"
            out.append(o)
        return out

    def target(self, i):
        """a path as it is handed to new() / copy(): absolute, or relative to the working directory"""
        return os.path.relpath(self.paths[i], self.root) if self.relative else self.paths[i]

    def execute(self, c):
        cwd = os.getcwd()
        os.chdir(self.root)
        try:
            return self._execute(c)
        finally:
            os.chdir(cwd)

    def _execute(self, c):
        op = c["op"]
        p = self.paths[c["p"]]
        res = "ok"
        try:
            with session.guarded():
                if op == "new":
                    t = Tdf.new(self.target(c["p"]))
                    if not isinstance(t, Tdf):
                        raise TypeError("Tdf.new did not return a Tdf")
                    # the object new() returns is like any other: read-only until allow_write() is called
                    # (a mutation that gets through here shows in the file, which must be the empty container)
                    try:
                        with t as f:
                            f.add_block(blocks.make_block(16, 1, 31337))
                    except Exception:  # noqa: BLE001
                        pass
                elif op == "copy":
                    t = Tdf(p).copy(self.target(c["q"]))
                    if not isinstance(t, Tdf):
                        raise TypeError("copy did not return a Tdf")
                elif op == "open":
                    Tdf(p)
                elif op == "enter":
                    t = Tdf(p)
                    try:
                        try:
                            with t as f:
                                f.entries
                        except Exception:
                            # refused: the same object must not hand out data afterwards either
                            leaked = []
                            for probe in (lambda: len(t), lambda: t.has_events, lambda: t.get_block(0), lambda: t.entries):
                                try:
                                    probe()
                                    leaked.append(True)
                                except Exception:  # noqa: BLE001
                                    pass
                            if not leaked:
                                raise
                    finally:
                        h = getattr(t, "handler", None)
                        if h is not None and not h.closed:
                            h.close()
                elif op == "read":
                    t = Tdf(p)
                    try:
                        t.blocks
                    finally:
                        h = getattr(t, "handler", None)
                        if h is not None and not h.closed:
                            h.close()
                elif op == "mcopy":
                    self.counter += 1
                    blk = blocks.make_block(16, 1 + self.counter % 3, 1000 + self.counter, 1500000000, 1500000100)
                    with Tdf(p).allow_write() as f:
                        f.events = blk
                        cp = f.copy(self.target(c["q"]))
                        # the copy is an object of its own: a mutation through it while the source is still
                        # inside its write context must be refused (and must not land in the source)
                        try:
                            cp.add_block(blocks.make_block(6, 1, 777))
                        except Exception:  # noqa: BLE001
                            pass
                elif op == "mutate":
                    self.counter += 1
                    blk = blocks.make_block(16, 1 + self.counter % 3, 1000 + self.counter, 1500000000, 1500000100)
                    with Tdf(p).allow_write() as f:
                        f.events = blk
        except FileExistsError:
            res = "exists"
        except Exception:  # noqa: BLE001
            res = "refused"
        ev = dict(op=op, p=c["p"], q=c.get("q", 0), res=res, obs=self.observe())
        return ev


def run_tour(labs, root, seed):
    calls = [parse_label(x) for x in labs]
    if calls[0]["op"] != "setup":
        raise common.Machinery("tour without Setup")
    w = PathWorld(root, seed)
    w.setup(calls[0]["kinds"])
    init = w.observe()
    steps = [w.execute(c) for c in calls[1:]]
    for p in list(w.paths.values()) + w.extra:
        if os.path.lexists(p):
            os.unlink(p)
    return dict(init=init, steps=steps, meta=dict(labels=labs, seed=seed))


def validate(traces):
    tf = os.path.join(common.scratch(), f"ptraces-{time.time_ns()}.json")
    with open(tf, "w") as fh:
        json.dump([{k: v for k, v in t.items() if k != "meta"} for t in traces], fh)
    res = tlc.run("TdfPathsTrace.tla", "Trace_paths.cfg", workers=8, env={"TRACE_FILE": tf}, check=False)
    os.unlink(tf)
    if res.error or res.violation:
        raise common.Machinery(f"path trace validation failed to run: {res.error or res.violation}\n{res.out[-2000:]}")
    verdict = {}
    for line in res.out.splitlines():
        if line.startswith('"END '):
            obj = json.loads(json.loads(line)[4:])
            verdict[obj["tid"]] = sorted(obj["cl"])
    if len(verdict) != len(traces):
        raise common.Machinery(f"verdicts for {len(verdict)} of {len(traces)} path traces\n{res.out[-1500:]}")
    return res, verdict


def check(prop, tier, seed, replay=None):
    run = common.Run(prop, tier, seed)
    run.assumptions += ["targets: absent, existing TDF, existing non-TDF, existing empty file; three paths",
                        "byte identity is established by sha256 of whole files"]
    root = os.path.join(common.scratch(), "paths")
    if replay:
        run.is_replay = True
        rp = json.load(open(replay))["replay"]
        tr = run_tour(rp["labels"], root, rp["seed"])
        res, verdict = validate([tr])
        run.add_tlc("TRACE replay", res, exhaustive=False)
        trs = [tr]
    else:
        init, adj, mc = graph(need_mc=True)
        run.add_tlc("MC MC_paths.cfg", mc)
        rng = random.Random(seed + 17)
        full = tier == "thorough"
        trs = []
        for k, labs in enumerate(tours.tours(init, adj, rng, max_len=40, max_edges=None if full else 5000)):
            trs.append(run_tour(labs, root, seed * 1000 + k))
        res, verdict = validate(trs)
        run.cov["tlc_runs"].append(dict(name="TRACE paths", traces=len(trs), **res.summary()))
        st = tours.stats(adj)
        run.cov["graphs"] = dict(paths=dict(nodes=st["nodes"], edges=st["edges"], exhaustive_tour=full))
        run.cov["exhaustive"] = full
    run.cov["traces_validated_against_impl"] = len(trs)
    run.cov["evaluations"] = sum(len(t["steps"]) for t in trs)
    run.cov["distinct_nontrivial"] = len({json.dumps(t["meta"]["labels"]) for t in trs})
    run.cov["rule"] = ("transition tours of the TdfPaths state graph (every (paths state, call) pair) executed on real paths; "
                       "distinct = distinct label sequences, all contain at least one call after Setup")
    for t in trs[:3]:
        run.sample(dict(labels=t["meta"]["labels"][:8], first=[dict(op=e["op"], p=e["p"], q=e["q"], res=e["res"],
                        kinds=[o["kind"] for o in e["obs"]]) for e in t["steps"][:4]]))
    for tid, cl in verdict.items():
        mine = [c for c in cl if c[1].startswith(prop + ":")]
        if mine and len(run.violations) < 5:
            tr = trs[tid - 1]
            ev = tr["steps"][mine[0][0] - 1]
            before = tr["steps"][mine[0][0] - 2]["obs"] if mine[0][0] > 1 else tr["init"]
            run.violation(f"{mine[0][1]} at step {mine[0][0]}: {ev['op']}({ev['p']},{ev['q']}) -> {ev['res']}; paths before "
                          f"{[(o['kind'], o['sha']) for o in before]} after {[(o['kind'], o['sha']) for o in ev['obs']]}",
                          dict(kind="paths", labels=tr["meta"]["labels"], seed=tr["meta"]["seed"], clauses=cl))
    return run.finish()
