"""Codec-level checks (C01 C02 C05 C06 C12 C14): TLC enumerates the bounded domain
of abstract blocks of spec/TdfCodecMC.tla, checks the codec properties on the
specification, and exports every block with the token stream, size and
single-site mutants the specification assigns it.  Every vector is then
replayed on the real library under several concretisations of the opaque value
ids and compared with what the specification says (M1 of DESIGN 4.3)."""
import hashlib
import json
import os
import pickle

import numpy as np

from . import common, tlc
from . import absblocks as ab
from .values import Values, ChanZeroValues

SPEC_FILES = ["TdfLayout.tla", "TdfCodec.tla", "TdfCodecMC.tla"]
ALL_KINDS = ["Data3D", "EMG", "ForceTorque3D", "ForcePlatformsData", "ForcePlatformsCalibration", "Data2D",
             "CalibrationData", "OpticalSetup", "Events", "Header", "Entry"]
INVS = {"C01": ["RoundTrip"], "C02": ["SizeAgree", "ShapeSizeAgree"], "C05": ["RleFieldsOK", "RunsSetAgree"], "C06": ["Canon", "RoundTrip"],
        "C12": ["ScrambleInv"], "C14": ["MutantsDiffer"]}


def write_cfg(path, kinds, maxf, maxitems, mutants, invariants):
    with open(path, "w") as fh:
        fh.write("SPECIFICATION Spec\nCONSTANTS\n")
        fh.write("  Kinds = {%s}\n" % ", ".join('"%s"' % k for k in kinds))
        fh.write(f"  MaxF = {maxf}\n  MaxItems = {maxitems}\n  WithMutants = {'TRUE' if mutants else 'FALSE'}\n")
        for i in invariants:
            fh.write(f"INVARIANT {i}\n")
        fh.write("CONSTRAINT Emit\nCHECK_DEADLOCK FALSE\n")


def vectors(kinds, maxf, maxitems, mutants, invariants):
    """run TLC; returns (result, list of vectors)"""
    cfg = os.path.join(common.scratch(), f"codec-{len(kinds)}-{maxf}-{maxitems}-{int(mutants)}.cfg")
    write_cfg(cfg, kinds, maxf, maxitems, mutants, invariants)
    layout_out = common.build_path("layout.json")
    res = tlc.run("TdfCodecMC.tla", cfg, workers=8, check=False, env={"LAYOUT_OUT": layout_out}, timeout=3000)
    if res.violation:
        raise common.Machinery(f"the codec specification violates its own invariant {res.violation}\n{res.out[-2000:]}")
    if res.error:
        raise common.Machinery(f"TLC failed on TdfCodecMC: {res.error[:3000]}")
    vecs = []
    seen = set()
    for line in res.out.splitlines():
        if line.startswith('"VEC '):
            v = json.loads(json.loads(line)[4:])
            key = json.dumps([v["kind"], v["fmt"], v["b"]], sort_keys=True)
            if key in seen:
                continue
            seen.add(key)
            vecs.append(v)
    if len(vecs) != res.distinct:
        raise common.Machinery(f"{len(vecs)} vectors for {res.distinct} states")
    return res, vecs


PAIRS = [0]  # (block, mutant) pairs compared in this process (C14 evidence)


class Poison:
    """numpy.empty returns buffers pre-filled with a non-NaN pattern: a legal
    environment (numpy.empty promises nothing), which makes use of uninitialised
    memory deterministic (C05)."""

    def __init__(self, byte):
        self.byte = byte

    def __enter__(self):
        self.real = np.empty
        real = self.real
        byte = self.byte

        def empty(shape, dtype=float, *a, **k):
            arr = real(shape, dtype, *a, **k)
            if arr.dtype != object and arr.size:
                arr.view("u1").reshape(-1)[...] = byte
            return arr

        np.empty = empty
        return self

    def __exit__(self, *a):
        np.empty = self.real
        return False


SCRAMBLERS = {
    "ff": lambda n: b"\xff" * n,
    # small numbers where a reader might look for a count (1, 2, 1, 2, ... as 32-bit words)
    "small-words": lambda n: (b"\x01\0\0\0\x02\0\0\0" * (n // 8 + 1))[:n],
    "word-2": lambda n: (b"\x02\0\0\0" * (n // 4 + 1))[:n],
    "text": lambda n: (b"garbage~" * (n // 8 + 1))[:n],
    "undefined-cp1252": lambda n: (b"\x81\x8d\x8f\x90\x9d" * (n // 5 + 1))[:n],
    "random": lambda n: hashlib.sha256(str(n).encode()).digest() * (n // 32) + hashlib.sha256(b"x").digest()[: n % 32],
}


def first_diff(a, b):
    for i, (x, y) in enumerate(zip(a, b)):
        if x != y:
            return i
    return min(len(a), len(b))


RLE_KINDS = {"Data3D": ("tracks", 3), "EMG": ("signals", 1), "ForceTorque3D": ("tracks", 9), "ForcePlatformsData": ("platforms", 6)}


def morph(kind, fmt, b_from, b_to, vals, style):
    """Build the block for b_from, let the library look at it (size, encoding, repr),
    then edit its samples IN PLACE so that its content becomes b_to (same shape).
    A block is a block however it came about: caches keyed on object identity
    must not survive such edits."""
    obj = ab.gamma(kind, fmt, b_from, vals, style)
    obj.nBytes
    raw = ab.encode(obj)
    repr(obj)
    decoded = style % 4 >= 2
    if decoded:
        # the block that is edited came out of the decoder (its arrays may be views of whatever
        # the decoder read); the library has looked at it as well
        obj, _ = ab.decode(kind, fmt, raw)
        obj.nBytes
        ab.encode(obj)
    rebind = style % 4 == 3    # some attributes are given NEW arrays, the others are edited in place
    if kind == "Data2D":
        # the cells of the frames x cameras grid are replaced one by one IN the grid the block holds
        # (another number of points, none at all): the grid object stays the same
        grid = obj.data
        for fr in range(b_to["nFrames"]):
            for c in range(len(b_to["camMap"])):
                pts = b_to["data"][fr][c]
                grid[fr, c] = (np.array([[vals.flt("f32", x), vals.flt("f32", y)] for x, y in pts], dtype="<f4") if pts else None)
        if rebind:
            obj.data = grid.copy()
        return obj
    name, per = RLE_KINDS[kind]
    items = ab.items_of(kind, obj)

    def put(it, attr, value):
        cur = getattr(it, attr)
        if rebind or not cur.flags.writeable:
            setattr(it, attr, np.array(value, dtype=cur.dtype))
        else:
            cur[...] = value
    for it, tgt in zip(items, b_to[name]):
        a = ab._frames(vals, tgt["frames"], per)
        if kind == "Data3D":
            if style % 2 and not decoded:
                it.X, it.Y, it.Z = a[:, 0], a[:, 1], a[:, 2]
            else:
                put(it, "data", a)
        elif kind == "EMG":
            put(it, "data", a[:, 0])
        elif kind == "ForceTorque3D":
            if it.application_point.flags.writeable:
                it.application_point[:, :] = a[:, 0:3]
            else:
                it.application_point = a[:, 0:3].copy()
            put(it, "force", a[:, 3:6])
            put(it, "torque", a[:, 6:9])
        else:
            if it.application_point.flags.writeable:
                it.application_point[:, :] = a[:, 0:2]
            else:
                it.application_point = a[:, 0:2].copy()
            put(it, "force", a[:, 2:5])
            put(it, "torque", a[:, 5])
    return obj


def exotic_sizes(vec, r, style=0):
    """C02 only, on blocks whose samples are +-inf / isolated NaN components: reported size = bytes
    written = bytes consumed by the decoder, for the block and for each of its items"""
    import io
    from .values import ExoticValues
    kind, fmt, b = vec["kind"], vec["fmt"], vec["b"]
    out = []
    try:
        obj = ab.gamma(kind, fmt, b, ExoticValues(r), style)
    except Exception:  # noqa: BLE001
        return out          # refusing such samples outright is the library's right
    try:
        if style % 2 == 0:
            obj.nBytes
        enc = ab.encode(obj)
    except Exception:  # noqa: BLE001
        return out
    if obj.nBytes != len(enc):
        out.append(("C02:nbytes_ne_written", f"nBytes {obj.nBytes} written {len(enc)}"))
    for it in ab.items_of(kind, obj):
        s = io.BytesIO()
        try:
            it._write(s, obj.format) if kind == "ForcePlatformsData" else it._write(s)
            if it.nBytes != len(s.getvalue()):
                out.append(("C02:item_nbytes", f"{type(it).__name__} nBytes {it.nBytes} written {len(s.getvalue())}"))
        except Exception as x:  # noqa: BLE001
            out.append(("C02:item_nbytes", f"{type(x).__name__}: {x}"))
    try:
        dec, pos = ab.decode(kind, fmt, enc, b"\xAA\x55" * 9)
        if pos != len(enc):
            out.append(("C02:consumed", f"decoder stopped at {pos}, block has {len(enc)} bytes"))
        if dec.nBytes != len(enc):
            out.append(("C02:decoded_nbytes", f"{dec.nBytes} vs {len(enc)}"))
    except Exception as x:  # noqa: BLE001
        out.append(("C02:decode_failed", f"{type(x).__name__}: {x}"))
    return out


def evaluate(vec, r, props, style=0, morph_from=None, huge=False, chan_zero=None, exotic=False, start_zero=None):
    if exotic:
        return exotic_sizes(vec, r, style) if "C02" in props else []
    """-> list of (clause, detail) for the properties asked for"""
    kind, fmt, b, toks = vec["kind"], vec["fmt"], vec["b"], vec["toks"]
    out = []
    if kind == "Header":
        return out  # the header is written by Tdf.new and read by Tdf.__enter__: checked at file level (codec_file)
    vals = Values(r, huge=huge) if chan_zero is None else ChanZeroValues(r, chan_zero)
    if start_zero is not None:
        from .values import StartZeroValues
        vals = StartZeroValues(r, vec["b"]["startTime"], start_zero == "-")
    exp = ab.pack(toks, vals)
    try:
        obj = morph(kind, fmt, morph_from, b, vals, style) if morph_from is not None else ab.gamma(kind, fmt, b, vals, style)
        if style % 2 == 0 and kind != "Entry":
            obj.nBytes        # the container asks for the size first and encodes afterwards
        enc = ab.encode(obj)
    except Exception as x:  # noqa: BLE001
        # a valid block that cannot be built or written at all: neither "encoding and decoding gives
        # it back" (C01) nor "its bytes follow the layout" (C06) holds for it
        return [(f"{p}:valid_block_refused", f"{type(x).__name__}: {x}") for p in ("C01", "C06") if p in props]
    if "C06" in props and enc != exp:
        out.append(("C06:bytes_differ", f"first difference at byte {first_diff(enc, exp)} of {len(enc)}/{len(exp)}"))
    if "C06" in props and kind != "Entry":
        # the converse: the layout-conformant bytes (the specification's, not the library's own)
        # decode to the values they were packed from
        try:
            dexp, pexp = ab.decode(kind, fmt, exp)
            bexp = ab.alpha(kind, fmt, dexp, vals)
            if bexp != b:
                out.append(("C06:decoded_values_differ", _where(b, bexp)))
            elif pexp != len(exp):
                out.append(("C06:decoded_values_differ", f"decoder stopped at {pexp} of {len(exp)}"))
        except Exception as x:  # noqa: BLE001
            out.append(("C06:decode_failed", f"layout-conformant bytes are not decoded: {type(x).__name__}: {x}"))
    if kind == "Entry":
        if "C06" in props or "C01" in props:
            dec, pos = ab.decode(kind, fmt, enc, b"\xAA" * 7)
            if ab.encode(dec) != enc:
                out.append(("C01:reencode_differs", "entry"))
            if pos != len(enc) and "C02" in props:
                out.append(("C02:consumed", f"{pos} of {len(enc)}"))
        if "C12" in props:
            _scramble_checks(kind, fmt, b, toks, vals, enc, out, entry=True)
        return out
    if "C02" in props:
        if obj.nBytes != len(enc):
            out.append(("C02:nbytes_ne_written", f"nBytes {obj.nBytes} written {len(enc)}"))
        if vec["size"] != len(enc):
            out.append(("C02:size_ne_spec", f"spec {vec['size']} written {len(enc)}"))
        for it in ab.items_of(kind, obj):
            try:
                import io
                s = io.BytesIO()
                if kind == "ForcePlatformsData":
                    it._write(s, obj.format)
                else:
                    it._write(s)
                if it.nBytes != len(s.getvalue()):
                    out.append(("C02:item_nbytes", f"{type(it).__name__} nBytes {it.nBytes} written {len(s.getvalue())}"))
            except Exception as x:  # noqa: BLE001
                out.append(("C02:item_nbytes", f"{type(x).__name__}: {x}"))
    try:
        dec, pos = ab.decode(kind, fmt, enc, b"\xAA\x55" * 9)
    except Exception as x:  # noqa: BLE001
        for p in ("C01", "C02", "C06"):
            if p in props:
                out.append((f"{p}:decode_failed", f"layout-conformant bytes are not decoded: {type(x).__name__}: {x}"))
        if "C05" in props and any(t.get("g") == "rle" for t in toks):
            # a run-length coded block the library wrote and cannot read back: its gaps did not survive storage
            out.append(("C05:decode_failed", f"a block with run-length coded gaps is not decoded: {type(x).__name__}: {x}"))
        return out
    if "C02" in props:
        if pos != len(enc):
            out.append(("C02:consumed", f"decoder stopped at {pos}, block has {len(enc)} bytes"))
        try:
            if dec.nBytes != len(enc):
                out.append(("C02:decoded_nbytes", f"{dec.nBytes} vs {len(enc)}"))
        except Exception as x:  # noqa: BLE001
            out.append(("C02:decoded_nbytes", f"{type(x).__name__}: {x}"))
    back = None
    if props & {"C01", "C05", "C14"}:
        try:
            back = ab.alpha(kind, fmt, dec, vals)
        except Exception as x:  # noqa: BLE001
            back = ("alpha failed", repr(x))
    if "C01" in props:
        if back != b:
            out.append(("C01:decode_differs", _where(b, back)))
        try:
            re = ab.encode(dec)
            if re != enc:
                out.append(("C01:reencode_differs", f"first difference at byte {first_diff(re, enc)}"))
        except Exception as x:  # noqa: BLE001
            out.append(("C01:reencode_differs", f"{type(x).__name__}: {x}"))
    if props & {"C05", "C01"} and kind == "ForceTorque3D" and len(b["tracks"]) == 2:
        # two tracks that SHARE one array object (e.g. one zero free-torque array for both feet): writing
        # the first track must not touch what the second one stores
        try:
            sh = ab.gamma(kind, fmt, b, vals, style)
            t1, t2 = ab.items_of(kind, sh)
            t1.torque = t2.torque
            t1.force = t2.force
            enc_sh = ab.encode(sh)
            dsh, _ = ab.decode(kind, fmt, enc_sh)
            back_sh = ab.alpha(kind, fmt, dsh, vals)
            if back_sh["tracks"][1] != b["tracks"][1]:
                for p_ in ("C05", "C01"):
                    if p_ in props:
                        out.append((f"{p_}:shared_array_overwritten", "the second of two tracks sharing an array: " + _where(b["tracks"][1], back_sh["tracks"][1])))
        except Exception as x:  # noqa: BLE001
            out.append(("C01:valid_block_refused", f"tracks sharing an array: {type(x).__name__}: {x}"))
    if "C05" in props and any(t.get("g") == "rle" for t in toks):
        for (a, z) in ab.rle_spans(toks):
            if enc[a:z] != exp[a:z]:
                out.append(("C05:run_table", f"run-length coded region at bytes {a}..{z} differs from the specification's"))
                break
        outs = []
        for byte in (0x41, 0x00, 0xC3):
            try:
                with Poison(byte):
                    d2, _ = ab.decode(kind, fmt, enc)
                outs.append(ab.alpha(kind, fmt, d2, vals))
            except Exception as x:  # noqa: BLE001
                outs.append(("decode failed", repr(x)))
        if outs[0] != b or outs[1] != b or outs[2] != b:
            which = next(o for o in outs if o != b)
            out.append(("C05:gap_not_nan", _where(b, which)))
    if "C12" in props:
        _scramble_checks(kind, fmt, b, toks, vals, enc, out)
    if "C14" in props:
        try:
            twin = ab.gamma(kind, fmt, b, Values(r), style + 1)
            if not (obj == twin) or not (twin == obj):
                out.append(("C14:equal_content_unequal", "a block is unequal to an identically built one"))
            if not (obj == dec) or not (dec == obj):
                out.append(("C14:roundtrip_unequal", "a block is unequal to the decode of its own encoding"))
            # something that is not a block of this type is never equal to it (False or a refusal)
            from basictdf.tdfEvents import TemporalEventsData as _TE
            from basictdf.tdfOpticalSystem import OpticalSetupBlock as _OS
            for foreign in (None, "text", 5, (_OS() if kind == "Events" else _TE())):
                for lhs, rhs in ((obj, foreign), (foreign, obj)):
                    try:
                        same = bool(lhs == rhs)
                    except Exception:  # noqa: BLE001
                        same = False
                    if same:
                        out.append(("C14:equal_to_foreign_object", f"{kind} block == {type(foreign).__name__}"))
            if kind == "CalibrationData" and b["cams"]:
                # the same header with cameras of the OTHER format: unequal, in both orders, without raising
                ofmt = 2 if fmt == 1 else 1
                cams = []
                for c in b["cams"]:
                    c2 = {k: v for k, v in c.items() if k in ("rotation_matrix", "translation_vector", "focus", "optical_center", "vp_origin", "vp_size")}
                    if ofmt == 1:
                        c2.update(radial_distortion=c["focus"], decentering=c["focus"], thin_prism=c["focus"])
                    else:
                        c2.update(x_distortion_coefficients=(c["rotation_matrix"] * 8)[:70], y_distortion_coefficients=(c["rotation_matrix"] * 8)[:70])
                    cams.append(c2)
                other_fmt = ab.gamma(kind, ofmt, dict(b, cams=cams), Values(r), style)
                if (obj == other_fmt) or (other_fmt == obj):
                    out.append(("C14:different_content_equal", "calibration blocks of different formats compare equal"))
            if kind == "Events" and b["events"]:
                # the same events given as float64 arrays whose values are NOT float32 numbers (they differ from
                # the stored value by less than the on-disk precision): same bytes, equal to the round trip
                from basictdf.tdfEvents import Event, EventsDataType, TemporalEventsData, TemporalEventsDataFormat
                o2 = TemporalEventsData(TemporalEventsDataFormat(fmt), vals.flt("f32", b["startTime"]))
                for e in b["events"]:
                    v64 = np.array([np.float64(vals.flt("f32", x)) * (1.0 + 2.0 ** -31) for x in e["values"]], dtype="<f8")
                    o2.events.append(Event(vals.text(e["label"], 256), v64, EventsDataType(e["type"])))
                if ab.encode(o2) == enc:
                    d2, _ = ab.decode(kind, fmt, enc)
                    if not (o2 == d2) or not (d2 == o2) or not (o2 == obj):
                        out.append(("C14:roundtrip_unequal", "an events block given as float64 arrays is unequal to the decode of its own encoding"))
        except Exception as x:  # noqa: BLE001
            out.append(("C14:equal_content_unequal", f"{type(x).__name__}: {x}"))
        for m in vec.get("mutants", []):
            if "startTime" in b and m.get("startTime") != b["startTime"]:
                # a header scalar that differs in the last bit is a different block (no tolerance is
                # granted to header scalars, only to samples)
                try:
                    x1 = ab.gamma(kind, fmt, b, Values(r, adjacent=True), style)
                    x2 = ab.gamma(kind, fmt, m, Values(r, adjacent=True), style)
                    PAIRS[0] += 1
                    if bool(x1 == x2) or bool(x2 == x1):
                        out.append(("C14:different_content_equal", "start times that are adjacent float32 values compare equal"))
                except Exception as x:  # noqa: BLE001
                    out.append(("C14:comparison_raises", f"{type(x).__name__}: {x}"))
            for zero_new in (False, True):
                try:
                    other = ab.gamma(kind, fmt, m, Values(r, specials=False, zero_new=zero_new), style)
                    base = ab.gamma(kind, fmt, b, Values(r, specials=False, zero_new=zero_new), style)
                except Exception:  # noqa: BLE001
                    continue  # the mutant is not a valid block (e.g. duplicate channel): not a C14 pair
                try:
                    eq1, eq2 = bool(base == other), bool(other == base)
                except Exception as x:  # noqa: BLE001
                    out.append(("C14:comparison_raises", f"{type(x).__name__}: {x}; {_where(b, m)}"))
                    break
                PAIRS[0] += 1
                if eq1 or eq2:
                    out.append(("C14:different_content_equal", _where(b, m) + (" (new samples are 0.0)" if zero_new else "")))
                    break
                if not zero_new:
                    dup = _compare_with_one_label(kind, fmt, b, m, r, style)
                    if dup:
                        out.append((dup, _where(b, m) + " (all items of both blocks carry one and the same label)"))
                        break
                    late = _compare_after_edit(kind, fmt, b, m, base, r, style)
                    if late:
                        out.append((late, _where(b, m) + " (the block had been compared before and was then edited in place)"))
                        break
    return out


from .inplace import same as _same, edit_towards as _edit_towards  # noqa: E402


def _item_labels(b):
    for key in ("tracks", "signals", "platforms", "events"):
        if key in b:
            return [it.get("label") for it in b[key]]
    return None


def _compare_with_one_label(kind, fmt, b, m, r, style):
    """Labels need not be unique.  Both blocks are built as usual, then every item of both is given one
    and the same label through the public attribute; they differ somewhere else (the pair is skipped
    when the mutant differs in a label or in the number of items), so they must still be unequal, and a
    relabelled twin must still be equal."""
    la, lb = _item_labels(b), _item_labels(m)
    if not la or la != lb or len(la) < 2 or None in la:
        return None
    try:
        x = ab.gamma(kind, fmt, b, Values(r, specials=False), style)
        y = ab.gamma(kind, fmt, m, Values(r, specials=False), style)
        t = ab.gamma(kind, fmt, b, Values(r, specials=False), style)
        for obj in (x, y, t):
            items = ab.items_of(kind, obj)
            if len(items) != len(la) or not all(hasattr(it, "label") for it in items):
                return None
            for it in items:
                it.label = "same label"
    except Exception:  # noqa: BLE001
        return None
    try:
        PAIRS[0] += 1
        if bool(x == y) or bool(y == x):
            return "C14:different_content_equal"
        if not (bool(x == t) and bool(t == x)):
            return "C14:equal_content_unequal"
    except Exception:  # noqa: BLE001
        return "C14:comparison_raises"
    return None


def _compare_after_edit(kind, fmt, b, m, used, r, style):
    """`used` holds content b and has taken part in comparisons.  It is edited in place until it holds
    content m (checked by reading it back through the abstraction, not through the library's
    encoder); it must then be unequal to a block with content b and equal to one with content m."""
    try:
        vals = Values(r, specials=False)
        twin = ab.gamma(kind, fmt, b, Values(r, specials=False), style)
        if not (bool(used == twin) and bool(twin == used)):
            return None                      # reported by the fresh-pair clauses
        fa = ab.gamma(kind, fmt, b, Values(r, specials=False), style)
        fb = ab.gamma(kind, fmt, m, Values(r, specials=False), style)
        if not _edit_towards(used, fa, fb):
            return None
        if ab.alpha(kind, fmt, used, vals) != ab.alpha(kind, fmt, fb, vals):
            return None                      # the edit did not produce content m: no verdict
    except Exception:  # noqa: BLE001
        return None
    try:
        PAIRS[0] += 1
        if bool(used == twin) or bool(twin == used):
            return "C14:different_content_equal"
        if not (bool(used == fb) and bool(fb == used)):
            return "C14:equal_content_unequal"
    except Exception as x:  # noqa: BLE001
        return "C14:comparison_raises"
    return None


def _scramble_checks(kind, fmt, b, toks, vals, enc, out, entry=False):
    spans = ab.dontcare_spans(toks, vals)
    if not spans:
        return
    for name, fn in SCRAMBLERS.items():
        raw = bytearray(enc)
        for (a, z) in spans:
            raw[a:z] = fn(z - a)
        try:
            dec, pos = ab.decode(kind, fmt, bytes(raw))
            if not entry:
                back = ab.alpha(kind, fmt, dec, vals)
                if back != b:
                    out.append(("C12:content_depends_on_dontcare", f"garbage {name}: {_where(b, back)}"))
                    return
            re = ab.encode(dec)
            if re != enc:
                out.append(("C12:reencode_not_canonical", f"garbage {name}: first difference at byte {first_diff(re, enc)}"))
                return
        except Exception as x:  # noqa: BLE001
            out.append(("C12:content_depends_on_dontcare", f"garbage {name}: decoding raises {type(x).__name__}: {x}"))
            return


_SALT = [0]


def decode_first(vec, r):
    """C12 on bytes the library has never produced: layout-conformant bytes with fresh texts and
    garbage in every undefined byte are DECODED first (a reader that remembers what it read must
    not let the garbage resurface), then re-encoded"""
    from .values import FreshTextValues
    kind, fmt, b, toks = vec["kind"], vec["fmt"], vec["b"], vec["toks"]
    out = []
    if kind in ("Header", "Entry"):
        return out
    for name, fn in SCRAMBLERS.items():
        _SALT[0] += 1
        vals = FreshTextValues(r, f"{os.getpid() % 1000}.{_SALT[0]}")
        exp = ab.pack(toks, vals)
        spans = ab.dontcare_spans(toks, vals)
        if not spans:
            return out
        raw = bytearray(exp)
        for (a, z) in spans:
            raw[a:z] = fn(z - a)
        try:
            dec, pos = ab.decode(kind, fmt, bytes(raw))
            back = ab.alpha(kind, fmt, dec, vals)
            if back != b:
                out.append(("C12:content_depends_on_dontcare", f"never seen bytes, garbage {name}: {_where(b, back)}"))
                return out
            re = ab.encode(dec)
            if re != exp:
                out.append(("C12:reencode_not_canonical", f"never seen bytes, garbage {name}: first difference at byte {first_diff(re, exp)}"))
                return out
            fresh = ab.encode(ab.gamma(kind, fmt, b, vals, 0))
            if fresh != exp:
                out.append(("C12:reencode_not_canonical", f"a block built from the same values after such a decode encodes differently: first difference at byte {first_diff(fresh, exp)}"))
                return out
        except Exception as x:  # noqa: BLE001
            out.append(("C12:content_depends_on_dontcare", f"never seen bytes, garbage {name}: {type(x).__name__}: {x}"))
            return out
    return out


def _where(a, b, path=""):
    """first position at which two abstract values differ"""
    if type(a) is not type(b):
        return f"{path}: {str(a)[:60]} vs {str(b)[:60]}"
    if isinstance(a, dict):
        for k in a:
            if k not in b:
                return f"{path}.{k}: missing"
            if a[k] != b[k]:
                return _where(a[k], b[k], f"{path}.{k}")
        extra = [k for k in b if k not in a]
        return f"{path}: extra {extra}" if extra else f"{path}: equal"
    if isinstance(a, list):
        if len(a) != len(b):
            return f"{path}: length {len(a)} vs {len(b)}"
        for i, (x, y) in enumerate(zip(a, b)):
            if x != y:
                return _where(x, y, f"{path}[{i}]")
        return f"{path}: equal"
    return f"{path}: {a} vs {b}"


class BoundaryValues(Values):
    """every text is exactly `extra` characters longer than what fits its field"""

    def __init__(self, extra):
        super().__init__(0, specials=False)
        self.extra = extra

    def text(self, vid, width):
        return (f"{vid}:" + "b" * width)[: width - 1 + self.extra]


def boundary_texts(run, vecs):
    """C02 also for blocks whose texts are exactly as long as their field or one longer: the
    library may refuse them (C13 says it must) - but whatever it accepts and writes must have
    the size it declares"""
    n = 0
    seen = set()
    for vec in vecs:
        kind = vec["kind"]
        if kind in seen or kind in ("Header", "Entry") or not any(t["ty"] == "str" for t in vec["toks"]):
            continue
        seen.add(kind)
        for extra in (1, 2):
            n += 1
            try:
                obj = ab.gamma(kind, vec["fmt"], vec["b"], BoundaryValues(extra), 0)
                enc = ab.encode(obj)
            except Exception:  # noqa: BLE001
                continue
            if obj.nBytes != len(enc) and len(run.violations) < 5:
                run.violation(f"C02:nbytes_ne_written on {kind} with a text of field width + {extra - 1}: the block was "
                              f"accepted, declares {obj.nBytes} bytes and writes {len(enc)}",
                              dict(kind="codec-boundary", block_kind=kind, extra=extra))
    return n


def file_dontcare(run, vecs, seed, limit):
    """C12, file part: two files that differ only in bytes the format leaves undefined inside a block
    have equal content - through every way of asking: ==, !=, the block lists, lookup by type"""
    import os
    from basictdf import Tdf
    from . import refio
    work = common.scratch()
    pa, pb = os.path.join(work, "dcA.tdf"), os.path.join(work, "dcB.tdf")
    n = 0
    picked = [v for v in vecs if v["kind"] in ab.BLOCK_KINDS][seed % 5::max(1, len(vecs) // limit)]
    for vec in picked[:limit]:
        kind, fmt, b, toks = vec["kind"], vec["fmt"], vec["b"], vec["toks"]
        vals = Values(seed)
        spans = ab.dontcare_spans(toks, vals)
        if not spans:
            continue
        try:
            blk = ab.gamma(kind, fmt, b, vals, 0)
            for pth in (pa, pb):
                if os.path.exists(pth):
                    os.unlink(pth)
            with Tdf.new(pa).allow_write() as f:
                f.add_block(blk)
            raw = bytearray(open(pa, "rb").read())
            off = refio.parse(bytes(raw)).table[0]["offset"]
            for name, fn in list(SCRAMBLERS.items())[:2]:
                sc = bytearray(raw)
                for (a, z) in spans:
                    sc[off + a:off + z] = fn(z - a)
                open(pb, "wb").write(bytes(sc))
                n += 1
                with Tdf(pa) as x, Tdf(pb) as y:
                    verdicts = dict(eq=bool(x == y), eq_rev=bool(y == x), ne=not bool(x != y), blocks=bool(x.blocks == y.blocks),
                                    lookup=bool(x.get_block(0) == y.get_block(0)))
                wrong = [k for k, v in verdicts.items() if not v]
                if wrong and len(run.violations) < 5:
                    run.violation(f"C12:content_depends_on_dontcare two files holding the same {kind} block, differing only in undefined bytes "
                                  f"(garbage {name}), differ according to {wrong}", dict(kind="codec-file-dontcare", vector=vec))
        except Exception as x:  # noqa: BLE001
            if len(run.violations) < 5:
                run.violation(f"C12:content_depends_on_dontcare file comparison raises {type(x).__name__}: {x} ({kind})",
                              dict(kind="codec-file-dontcare", vector=vec))
    for pth in (pa, pb):
        if os.path.exists(pth):
            os.unlink(pth)
    return n


def file_equality(run, vecs, seed, limit):
    """C14, file part: two files compare equal exactly when version, slot count and block lists do"""
    import os
    import struct as _st
    from basictdf import Tdf
    work = common.scratch()
    n = 0

    def build(path, blocks_, version=1, slots=14):
        if os.path.exists(path):
            os.unlink(path)
        t = Tdf.new(path)
        with t.allow_write() as f:
            for b in blocks_:
                f.add_block(b)
        if version != 1 or slots != 14:
            raw = bytearray(open(path, "rb").read())
            _st.pack_into("<I", raw, 16, version)
            if slots != 14:
                # same blocks in a table with more (or fewer) slots: rebuild through refio
                from . import refio
                p = refio.parse(bytes(raw))
                shift = 288 * (slots - 14)
                ents = [dict(e, offset=e["offset"] + shift) for e in p.table][:slots]
                ents += [dict(type=0, format=0, offset=len(raw) + shift, size=0)] * (slots - 14)
                raw = bytearray(refio.build_file(slots, ents, bytes(raw[64 + 288 * 14:]), version=version))
            open(path, "wb").write(bytes(raw))

    def equal(p1, p2):
        with Tdf(p1) as x, Tdf(p2) as y:
            return bool(x == y), bool(y == x)

    pa, pb = os.path.join(work, "eqA.tdf"), os.path.join(work, "eqB.tdf")
    picked = [v for v in vecs if v["kind"] in ab.BLOCK_KINDS and v.get("mutants")][seed % 7::max(1, len(vecs) // limit)]
    for vec in picked[:limit]:
        kind, fmt, b = vec["kind"], vec["fmt"], vec["b"]
        try:
            a1 = ab.gamma(kind, fmt, b, Values(seed, specials=False), 0)
            a2 = ab.gamma(kind, fmt, b, Values(seed, specials=False), 1)
            extra = ab.gamma("Events", 1, dict(startTime=41, events=[dict(label=51, type=0, values=[301])]), Values(seed, specials=False), 0)
            other = [] if kind == "Events" else [extra]
            build(pa, [a1] + other)
            build(pb, other + [a2] if False else [a2] + other)
            n += 1
            e1, e2 = equal(pa, pb)
            if not (e1 and e2) and len(run.violations) < 5:
                run.violation(f"C14:equal_files_unequal two files holding the same {kind} block compare unequal",
                              dict(kind="codec-file-eq", vector=vec))
            m = vec["mutants"][seed % len(vec["mutants"])]
            try:
                bm = ab.gamma(kind, fmt, m, Values(seed, specials=False), 0)
            except Exception:  # noqa: BLE001
                continue
            build(pb, [bm] + other)
            n += 1
            e1, e2 = equal(pa, pb)
            if (e1 or e2) and len(run.violations) < 5:
                run.violation(f"C14:different_files_equal files differing in one site of their {kind} block compare equal: {_where(b, m)}",
                              dict(kind="codec-file-eq", vector=vec))
            # the same two OBJECTS compared before and after one file is rewritten in place (the block
            # stored last is replaced by one that differs in a single site: same table, other content)
            build(pa, other + [a1])
            build(pb, other + [a2])
            X, Y = Tdf(pa), Tdf(pb)
            with X as x, Y as y:
                before = bool(x == y) and bool(y == x)
            a3 = ab.gamma(kind, fmt, m, Values(seed, specials=False), 1)
            with Y.allow_write() as f:
                f.replace_block(a3)
            with X as x, Y as y:
                after = bool(x == y) or bool(y == x)
            n += 2
            if (not before or after) and len(run.violations) < 5:
                run.violation(f"C14:{'equal_files_unequal' if not before else 'different_files_equal'} the same two Tdf objects "
                              f"compared before and after the {kind} block of one file was replaced ({_where(b, m)})",
                              dict(kind="codec-file-eq", vector=vec))
            # tables without a single unused slot (foreign files have as many slots as blocks)
            nfull = 1 + len(other)
            build(pa, [a1] + other, slots=nfull)
            build(pb, [a2] + other, slots=nfull)
            g1, g2 = equal(pa, pb)
            build(pb, [bm] + other, slots=nfull)
            h1, h2 = equal(pa, pb)
            n += 2
            if (not (g1 and g2) or h1 or h2) and len(run.violations) < 5:
                run.violation(f"C14:{'equal_files_unequal' if not (g1 and g2) else 'different_files_equal'} files whose table is exactly full "
                              f"({nfull} slots, {kind}: {_where(b, m)})", dict(kind="codec-file-eq", vector=vec))
            build(pa, [a1] + other)
            build(pb, [a2] + other, version=2)
            e1, e2 = equal(pa, pb)
            build(pb, [a2] + other, slots=15)
            f1, f2 = equal(pa, pb)
            n += 2
            if (e1 or e2 or f1 or f2) and len(run.violations) < 5:
                run.violation("C14:different_files_equal files that differ in version or slot count compare equal",
                              dict(kind="codec-file-eq", vector=vec))
        except Exception as x:  # noqa: BLE001
            if len(run.violations) < 5:
                run.violation(f"C14:file_comparison_raises {type(x).__name__}: {x} ({kind})", dict(kind="codec-file-eq", vector=vec))
    for pth in (pa, pb):
        if os.path.exists(pth):
            os.unlink(pth)
    return n


def sizes_after_edits(run, tier, seed):
    """C02 for blocks that came about through edit histories (add / remove / assign / decode): tours
    of the object models, the declared size compared with the encoding after every call, judged by
    TLC (clause C02:declared_size_after_edits of TdfObjectsCore)"""
    import random as _r
    from . import objects, tours
    rng = _r.Random(seed + 77)
    trs = []
    for kind in objects.KINDS_OF["C02"]:
        init, adj, _ = objects.graph(kind)
        k = 0
        for labs in tours.tours(init, adj, rng, max_len=50, select=lambda s, d, lab: not lab.startswith("Lookup"),
                                max_edges=1200 if tier == "quick" else 20000):
            k += 1
            trs.append(objects.run_tour(kind, labs, seed * 11 + k))
    res, verdict = objects.validate(trs)
    run.cov["tlc_runs"].append(dict(name="TRACE object histories (declared size after edits)", traces=len(trs), **res.summary()))
    for tid, cl in verdict.items():
        mine = [c for c in cl if c[1].startswith("C02:")]
        if mine:
            tr = trs[tid - 1]
            ev = tr["steps"][mine[0][0] - 1]
            run.violation(f"{mine[0][1]} at step {mine[0][0]} on {tr['kind']}: after call {json.dumps(ev['o'])} the block declares a "
                          f"size that its encoding does not have", dict(kind="codec-objects", labels=tr["meta"]["labels"],
                                                                     okind=tr["meta"]["kind"], seed=tr["meta"]["seed"]))
    return sum(len(t["steps"]) for t in trs)


def real_sized(run, prop, tier, seed, vecs):
    """M2 / M3: the exported layout on real-sized data; returns the number of cases"""
    from . import bigdata
    n = 0
    if prop == "C14":
        return 0
    L = bigdata.layout()
    # the layout interpreter is derived from the specification: its encoding of every
    # enumerated block must be the packed specification tokens (else the machinery is broken)
    for vec in vecs:
        if vec["kind"] in ("Header",):
            continue
        vals = Values(seed)
        plain = bigdata.to_plain(L, vec["kind"], vec["b"], vec["fmt"], vals)
        if L.encode(vec["kind"], plain, vec["fmt"]) != ab.pack(vec["toks"], vals):
            raise common.Machinery(f"layout interpreter disagrees with TLC on {vec['kind']} {vec['b']}")
        v2, pos, _ = L.decode(vec["kind"], ab.pack(vec["toks"], vals), vec["fmt"])
        if v2 != plain or pos != vec["size"]:
            raise common.Machinery(f"layout interpreter decode disagrees with TLC on {vec['kind']} {vec['b']}")
    run.cov["layout_interpreter_cross_validated_on"] = len(vecs)
    count = 45 if tier == "quick" else 450
    bad, nobs, res = bigdata.random_campaign(seed, count, {prop}, limits=prop in ("C01", "C02", "C05", "C06"))
    n += count
    if res is not None:
        run.cov["tlc_runs"].append(dict(name="OBS random large blocks (TdfCodecObs)", observations=nobs, **res.summary()))
    findings = list(bad)
    if prop in ("C02", "C05", "C06", "C12"):
        cb, nc, cres, _ = bigdata.capture_campaign({prop}, scramble_seed=seed)
        n += nc
        run.cov["tlc_runs"].append(dict(name="OBS BTS capture (TdfCodecObs)", observations=nc, **cres.summary()))
        run.cov["capture_blocks"] = nc
        findings += cb
    if prop in ("C06", "C12"):
        hb, nh = bigdata.header_campaign({prop}, seed)
        n += nh
        findings += hb
    for clause, detail, rp in findings:
        if clause.startswith(prop + ":") and len(run.violations) < 5:
            run.violation(f"{clause} {detail}", rp)
    run.cov["real_sized_cases"] = n
    return n


def check(prop, tier, seed, replay=None):
    run = common.Run(prop, tier, seed)
    run.assumptions += [
        "sample values, integer payloads and texts are opaque ids in the specification; bit-exactness is established on a "
        "value pool containing +-0, denormals, extreme magnitudes, range ends, boundary-length and cp1252-high texts",
        "lib/verif/absblocks.py pack() defines the primitive encodings (struct little endian, NUL padding)",
    ]
    mutants = prop == "C14"
    if replay:
        run.is_replay = True
        rp = json.load(open(replay))["replay"]
        if rp.get("kind") in ("codec-boundary", "codec-file-eq", "codec-file-dontcare", "codec-objects"):
            return check(prop, "quick", seed)   # these scenarios are cheap: the replay is the quick run itself
        if rp.get("kind") in ("bigblock", "capture", "header"):
            from . import bigdata
            if rp["kind"] == "bigblock":
                bad = [(c, d) for c, d, _ in bigdata.random_campaign_one(rp, {prop})]
            elif rp["kind"] == "capture":
                bad = [(c, d) for c, d, _ in bigdata.capture_campaign({prop})[0]]
            else:
                bad = [(c, d) for c, d, _ in bigdata.header_campaign({prop}, seed)[0]]
        elif rp.get("decode_first"):
            bad = decode_first(rp["vector"], rp["r"])
        elif rp.get("start_zero"):
            bad = []
            for sign in ("+", "-", "+"):      # the recorded case is one of a sequence: replay the sequence
                bad += evaluate(rp["vector"], rp["r"], {prop}, rp.get("style", 0), start_zero=sign)
        else:
            bad = evaluate(rp["vector"], rp["r"], {prop}, rp.get("style", 0), exotic=rp.get("exotic", False), morph_from=rp.get("morph_from"),
                           huge=rp.get("huge", False), chan_zero=rp.get("chan_zero"), start_zero=rp.get("start_zero"))
        run.cov["evaluations"] = 1
        run.cov["distinct_nontrivial"] = 2
        run.sample(dict(kind=rp.get("vector", {}).get("kind", rp.get("kind")), b=rp.get("vector", {}).get("b")))
        for clause, detail in bad:
            if clause.startswith(prop + ":"):
                run.violation(f"{clause} {detail}", rp)
                break
        return run.finish()
    if tier == "quick":
        # (three concretisations for C14: between them every label id takes the text classes
        # "cp1252 0x80-0x9F characters", "longest text that fits" and "padded with blanks")
        maxf, maxitems, rs = (3, 2, [seed, seed + 1]) if not mutants else (2, 2, [seed, seed + 4, seed + 5])
    else:
        maxf, maxitems, rs = (5, 2, list(range(seed, seed + 4))) if not mutants else (4, 2, [seed, seed + 1])
    res, vecs = vectors(ALL_KINDS, maxf, maxitems, mutants, sorted(set(sum(INVS.values(), [])) if not mutants else INVS[prop]))
    run.add_tlc(f"MC TdfCodecMC MaxF={maxf} MaxItems={maxitems} mutants={mutants}", res)
    run.cov["exhaustive"] = True
    run.cov["traces_validated_against_impl"] = 0
    n_eval = 0
    nontrivial = 0
    per_kind = {}
    for vi, vec in enumerate(vecs):
        per_kind[vec["kind"]] = per_kind.get(vec["kind"], 0) + 1
        if vec["toks"]:
            nontrivial += 1
        for r in rs:
            n_eval += 1
            try:
                bad = evaluate(vec, r, {prop}, style=(vi + r) % 12)
            except Exception as x:  # noqa: BLE001  (library code raising where the unchanged library does not)
                import traceback
                where = traceback.extract_tb(x.__traceback__)[-1]
                bad = [(f"{prop}:library_raised", f"{type(x).__name__}: {x} at {where.filename}:{where.lineno}")]
            mine = [c for c in bad if c[0].startswith(prop + ":")]
            if mine and len(run.violations) < 5:
                clause, detail = mine[0]
                run.violation(f"{clause} on {vec['kind']} format {vec['fmt']}: {detail}",
                              dict(kind="codec", vector=vec, r=r, style=(vi + r) % 12, clauses=mine))
        if not mutants and any(t.get("p") in ("i16", "u16", "u15") for t in vec["toks"]):
            # channel / camera number 0 at the first, second, ... position of the map
            nchan = sum(1 for t in vec["toks"] if t.get("p") in ("i16", "u16", "u15"))
            k = (vi + seed) % nchan
            n_eval += 1
            try:
                bad = evaluate(vec, rs[0], {prop}, style=vi % 12, chan_zero=k)
            except Exception as x:  # noqa: BLE001
                bad = [(f"{prop}:library_raised", f"{type(x).__name__}: {x} (channel 0)")]
            mine = [c for c in bad if c[0].startswith(prop + ":")]
            if mine:
                run.violation(f"{mine[0][0]} on {vec['kind']} format {vec['fmt']} with channel number 0 at position {k}: {mine[0][1]}",
                              dict(kind="codec", vector=vec, r=rs[0], style=vi % 12, chan_zero=k, clauses=mine))
        if vec["kind"] in RLE_KINDS and not mutants and vi % 3 == seed % 3:
            # every sample near the top of the float range: sums of two samples overflow
            n_eval += 1
            try:
                bad = evaluate(vec, rs[0], {prop}, style=vi % 12, huge=True)
            except Exception as x:  # noqa: BLE001
                bad = [(f"{prop}:library_raised", f"{type(x).__name__}: {x} (huge samples)")]
            mine = [c for c in bad if c[0].startswith(prop + ":")]
            if mine:
                run.violation(f"{mine[0][0]} on {vec['kind']} format {vec['fmt']} with samples near the top of the float32 range: {mine[0][1]}",
                              dict(kind="codec", vector=vec, r=rs[0], style=vi % 12, huge=True, clauses=mine))
        if not mutants and prop in ("C01", "C06") and isinstance(vec["b"], dict) and "startTime" in vec["b"] and vi % 4 == seed % 4:
            # the start time as +0.0 and as -0.0, alternately (two values that compare equal)
            for sign in ("+", "-", "+"):
                n_eval += 1
                bad = evaluate(vec, rs[0], {prop}, style=vi % 12, start_zero=sign)
                mine = [c for c in bad if c[0].startswith(prop + ":")]
                if mine:
                    run.violation(f"{mine[0][0]} on {vec['kind']} format {vec['fmt']} with start time {sign}0.0: {mine[0][1]}",
                                  dict(kind="codec", vector=vec, r=rs[0], style=vi % 12, start_zero=sign, clauses=mine))
        if prop == "C12" and vi % 2 == seed % 2:
            n_eval += 1
            bad = decode_first(vec, rs[0])
            if bad:
                run.violation(f"{bad[0][0]} on {vec['kind']} format {vec['fmt']}: {bad[0][1]}",
                              dict(kind="codec", vector=vec, r=rs[0], decode_first=True, clauses=bad))
        if prop == "C02" and vec["kind"] in RLE_KINDS and not mutants:
            # samples that are not ordinary numbers (+-inf, one component NaN): sizes only
            for r in rs[:2]:
                n_eval += 1
                bad = evaluate(vec, r, {prop}, style=(vi + r) % 12, exotic=True)
                if bad:
                    run.violation(f"{bad[0][0]} on {vec['kind']} format {vec['fmt']} with infinite / partly missing samples: {bad[0][1]}",
                                  dict(kind="codec", vector=vec, r=r, style=(vi + r) % 12, exotic=True, clauses=bad))
        if vi % 200 == 0:
            run.sample(dict(kind=vec["kind"], fmt=vec["fmt"], b=vec["b"], size=vec["size"], n_tokens=len(vec["toks"]),
                            n_mutants=len(vec.get("mutants", []))))
    # in-place edits: every run-length coded block is also reached by editing another
    # block of the same shape in place after the library has looked at it
    groups = {}
    for vec in vecs:
        if vec["kind"] == "Data2D" and vec["b"].get("nFrames", 0) > 0 and vec["b"].get("camMap"):
            key = ("Data2D", vec["fmt"], vec["b"]["nFrames"], len(vec["b"]["camMap"]),
                   json.dumps({k: v for k, v in vec["b"].items() if k != "data"}, sort_keys=True))
            groups.setdefault(key, []).append(vec)
            continue
        if vec["kind"] in RLE_KINDS and not mutants or (mutants and vec["kind"] in RLE_KINDS):
            name, _ = RLE_KINDS[vec["kind"]]
            n = vec["b"].get("nFrames", vec["b"].get("nSamples"))
            key = (vec["kind"], vec["fmt"], n, len(vec["b"][name]), json.dumps({k: v for k, v in vec["b"].items() if k != name}, sort_keys=True))
            groups.setdefault(key, []).append(vec)
    n_morph = 0
    for key, grp in groups.items():
        if len(grp) < 2 or key[3] == 0:
            continue
        for i, vec in enumerate(grp):
            src = grp[(i + 1 + seed) % len(grp)]
            if src is vec:
                continue
            n_morph += 1
            try:
                bad = evaluate(dict(vec, mutants=[]), rs[0], {prop}, style=i % 12, morph_from=src["b"])
            except Exception as x:  # noqa: BLE001
                bad = [(f"{prop}:library_raised", f"{type(x).__name__}: {x} (after in-place edit)")]
            mine = [c for c in bad if c[0].startswith(prop + ":")]
            if mine and len(run.violations) < 5:
                clause, detail = mine[0]
                run.violation(f"{clause} on {vec['kind']} format {vec['fmt']} after editing a block in place: {detail}",
                              dict(kind="codec", vector=vec, morph_from=src["b"], r=rs[0], style=i % 12, clauses=mine))
    n_eval += n_morph
    run.cov["in_place_edit_vectors"] = n_morph
    n_eval += real_sized(run, prop, tier, seed, vecs)
    if prop == "C02":
        n_eval += boundary_texts(run, vecs)
        n_eval += sizes_after_edits(run, tier, seed)
    if prop == "C12":
        nd = file_dontcare(run, vecs, seed, 40 if tier == "quick" else 300)
        run.cov["file_pairs_differing_in_undefined_bytes"] = nd
        n_eval += nd
    if prop == "C14":
        nf = file_equality(run, vecs, seed, 40 if tier == "quick" else 300)
        run.cov["file_pairs_compared"] = nf
        n_eval += nf
    run.cov["traces_validated_against_impl"] = n_eval
    run.cov["evaluations"] = n_eval
    run.cov["distinct_nontrivial"] = nontrivial
    run.cov["vectors_per_struct"] = per_kind
    if mutants:
        run.cov["mutant_pairs_compared"] = PAIRS[0]
    run.cov["concretisations"] = rs
    run.cov["rule"] = ("every abstract block TLC enumerates for the bounded domain (all presence masks, 0..MaxItems items, "
                       "all formats) is one vector; each is replayed on the real library under each concretisation; "
                       "non-trivial = has a non-empty token stream")
    return run.finish()
