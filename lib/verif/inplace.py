"""Editing an object IN PLACE until it holds the content of another one: shared by the codec checks
(a block that has been compared / sized / encoded is edited and looked at again) and by the container
driver (a block object that was stored earlier is edited and stored again)."""
import numpy as np


def same(x, y):
    if isinstance(x, np.ndarray) or isinstance(y, np.ndarray):
        return (isinstance(x, np.ndarray) and isinstance(y, np.ndarray) and x.shape == y.shape and x.dtype == y.dtype
                and bool(np.array_equal(x, y, equal_nan=True)) if x.dtype != object else False)
    try:
        return bool(x == y) and type(x) is type(y)
    except Exception:  # noqa: BLE001
        return False


def edit_towards(dst, fa, fb, depth=0):
    """dst was built like fa and has been used since; fa and fb are unused twins of the two contents.
    Edit dst, in place, exactly where fa and fb differ: public attributes are assigned, arrays are
    overwritten element-wise, cells of object grids are replaced; private containers are only walked
    through.  False when the difference cannot be reached that way (another number of items, a
    private scalar)."""
    import enum
    if depth > 4:
        return False
    va, vb, vd = vars(fa), vars(fb), vars(dst)
    # public attributes that only one of the two contents has (the marker links of a 3D block)
    for name in list(vb):
        if name not in va:
            if name.startswith("_"):
                return False
            setattr(dst, name, vb[name])
    for name in list(va):
        if name not in vb:
            if name.startswith("_") or name not in vd:
                return False
            delattr(dst, name)
    for name, x in va.items():
        if name not in vb:
            continue
        if name not in vd:
            return False
        y, cur = vb[name], vd[name]
        if isinstance(x, np.ndarray) and isinstance(y, np.ndarray):
            if x.shape != y.shape or x.dtype != y.dtype:
                return False
            if x.dtype == object:
                for idx in np.ndindex(x.shape):
                    cx, cy = x[idx], y[idx]
                    if not ((cx is None and cy is None) or (cx is not None and cy is not None and same(cx, cy))):
                        cur[idx] = cy
            elif not np.array_equal(x, y, equal_nan=True):
                if not cur.flags.writeable:
                    return False
                cur[...] = y
        elif isinstance(x, list) and isinstance(y, list):
            if len(x) != len(y) or len(cur) != len(x):
                return False
            for i, (p, q) in enumerate(zip(x, y)):
                if hasattr(p, "__dict__") and type(p) is type(q) and not isinstance(p, enum.Enum):
                    if not edit_towards(cur[i], p, q, depth + 1):
                        return False
                elif not same(p, q):
                    if name.startswith("_"):
                        return False
                    cur[i] = q
        elif hasattr(x, "__dict__") and type(x) is type(y) and not isinstance(x, enum.Enum):
            if not edit_towards(cur, x, y, depth + 1):
                return False
        elif not same(x, y):
            if name.startswith("_"):
                return False
            setattr(dst, name, y)
    return True
