"""Thin wrapper around the pre-installed TLC (tlc on PATH)."""
import os
import re
import shutil
import subprocess
import tempfile
import time

from . import SPEC

JAVA_OPTS = "-Xmx6g -XX:+UseParallelGC -XX:ParallelGCThreads=4"


class TlcError(Exception):
    pass


class Result:
    def __init__(self):
        self.out = ""
        self.generated = 0
        self.distinct = 0
        self.depth = 0
        self.wall = 0.0
        self.violation = None  # name of violated invariant / property
        self.error = None
        self.coverage = {}
        self.prints = []

    def summary(self):
        return dict(states=self.distinct, transitions=self.generated, depth=self.depth, wall_s=round(self.wall, 2))


def _scratch():
    base = os.environ.get("VERIF_TMP") or tempfile.gettempdir()
    return tempfile.mkdtemp(prefix="verif-tlc-", dir=base)


def run(module, cfg, workers=8, env=None, extra=(), timeout=3600, coverage=False, dump_dot=None, simulate=None,
        check=True, cwd=None):
    """Run TLC on spec/<module>.tla with spec/<cfg>.  Returns Result."""
    meta = _scratch()
    cmd = ["tlc", "-workers", str(workers), "-metadir", meta, "-noGenerateSpecTE", "-config", cfg]
    if coverage:
        cmd += ["-coverage", "1"]
    if dump_dot:
        cmd += ["-dump", "dot,actionlabels", dump_dot]
    if simulate:
        cmd += ["-simulate", simulate]
    cmd += list(extra) + [module]
    e = dict(os.environ)
    # (TLC leaves an empty tlc-<n> directory in java.io.tmpdir per run: keep it inside the directory removed below)
    e["JAVA_TOOL_OPTIONS"] = JAVA_OPTS + f" -Djava.io.tmpdir={meta}"
    if env:
        e.update(env)
    t0 = time.time()
    try:
        p = subprocess.run(cmd, cwd=cwd or SPEC, env=e, capture_output=True, text=True, timeout=timeout)
    except subprocess.TimeoutExpired as x:
        subprocess.run(["pkill", "-f", meta], check=False)
        raise TlcError(f"TLC timeout after {timeout}s: {' '.join(cmd)}") from x
    finally:
        shutil.rmtree(meta, ignore_errors=True)
    r = Result()
    r.wall = time.time() - t0
    r.out = p.stdout + p.stderr
    m = re.search(r"(\d+) states generated, (\d+) distinct states found", r.out)
    if m:
        r.generated, r.distinct = int(m.group(1)), int(m.group(2))
    m = re.search(r"depth of the complete state graph search is (\d+)", r.out)
    if m:
        r.depth = int(m.group(1))
    m = re.search(r"Error: Invariant (\w+) is violated", r.out)
    if m:
        r.violation = m.group(1)
    m = re.search(r"Error: Action property (\w+) is violated", r.out)
    if m:
        r.violation = m.group(1)
    if r.violation is None and ("Error:" in r.out or p.returncode not in (0,)):
        m = re.search(r"Error: (.*)", r.out)
        r.error = (m.group(1) if m else f"exit {p.returncode}") + "\n" + r.out[-3000:]
    if coverage:
        # <Action line ..., col ... of module M>: distinct:generated
        for m in re.finditer(r"^<(\w+) line \d+, col \d+ to line \d+, col \d+ of module (\w+)>: (\d+):(\d+)", r.out, re.M):
            name = m.group(1)
            c = r.coverage.setdefault(name, [0, 0])
            c[0] += int(m.group(3))
            c[1] += int(m.group(4))
    if check and r.error:
        raise TlcError(r.error)
    return r


def printed(out):
    """values printed by PrintT, one per line, as raw strings (deduplicated, order kept)"""
    seen = set()
    res = []
    for line in out.splitlines():
        if line.startswith("<<") or line.startswith('"') or line.startswith("{") or line.startswith("["):
            if line not in seen:
                seen.add(line)
                res.append(line)
    return res


def sany(module, cwd=None):
    p = subprocess.run(["tla-sany", module], cwd=cwd or SPEC, capture_output=True, text=True)
    out = p.stdout + p.stderr
    bad = p.returncode != 0 or re.search(r"\*\*\* Errors|Fatal errors|Parse Error|Abort", out)
    return (not bad), out
