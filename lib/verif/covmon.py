"""Which lines of the library do the checks execute?  (not a check: a map of what the conformance
harnesses reach, used to decide where the specifications should grow next)

VERIF_COVERAGE=<file>: record, with sys.monitoring (Python 3.12, negligible overhead), every line of
/repo/src/basictdf that runs, and merge the set into <file> at exit.  bin/coverage-report prints
the lines that were never reached."""
import atexit
import json
import os
import sys


def enable(path, src_root):
    mon = getattr(sys, "monitoring", None)
    if mon is None:
        return
    tool = mon.COVERAGE_ID
    try:
        mon.use_tool_id(tool, "verif-cov")
    except ValueError:
        return
    seen = {}
    root = os.path.realpath(src_root)

    def on_line(code, line):
        fn = code.co_filename
        if fn.startswith(root):
            seen.setdefault(fn[len(root) + 1:], set()).add(line)
        return mon.DISABLE          # each line location reports once

    mon.register_callback(tool, mon.events.LINE, on_line)
    mon.set_events(tool, mon.events.LINE)

    def dump():
        old = {}
        if os.path.exists(path):
            try:
                old = json.load(open(path))
            except Exception:  # noqa: BLE001
                old = {}
        for k, v in seen.items():
            old[k] = sorted(set(old.get(k, [])) | v)
        tmp = f"{path}.{os.getpid()}.tmp"
        with open(tmp, "w") as fh:
            json.dump(old, fh)
        os.replace(tmp, path)
    atexit.register(dump)
