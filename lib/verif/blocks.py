"""gamma: builders of real library blocks for the container-level harness.

make_block(real_type, k, tag, cd, md) returns a valid block of that type with k
items whose bytes are unique per (type, k, tag); bad_block(...) returns one
that cannot be encoded.  Only public constructors / adders are used, except the
Data2D camera map which has no public setter (DESIGN 4.5).
"""
import io
from datetime import datetime

import numpy as np

from . import SRC  # noqa: F401  (sets sys.path)
from basictdf.tdfBlock import BlockType
from basictdf.tdfCalibrationData import (
    BTSCameraData,
    CalibrationDataBlock,
    CalibrationDataBlockFormat,
    DistorsionModel,
    SeelabCameraData,
)
from basictdf.tdfData2D import Data2D, Data2DFlags
from basictdf.tdfData3D import Data3D, Data3dBlockFormat, MarkerTrack
from basictdf.tdfEMG import EMG, EMGTrack
from basictdf.tdfEvents import Event, EventsDataType, TemporalEventsData
from basictdf.tdfForce3D import ForceTorque3D, ForceTorqueTrack
from basictdf.tdfForcePlatformsCalibration import ForcePlatformInfo, ForcePlatformsCalibrationDataBlock
from basictdf.tdfForcePlatformsData import ForcePlatformData, ForcePlatformsDataBlock
from basictdf.tdfOpticalSystem import OpticalChannelData, OpticalSetupBlock
from basictdf.tdfTypes import CameraViewPort

WRITABLE = [5, 11, 12, 9, 7, 4, 2, 6, 16]
SETTER = {5: "data3D", 12: "force_and_torque", 9: "force_platforms_data", 16: "events", 11: "emg"}
GETTER = dict(SETTER)
GETTER[2] = "calibrationData"
HAS = {5: "has_data3D", 12: "has_force_and_torque", 9: "has_force_platforms_data", 16: "has_events", 11: "has_emg"}
OPAQUE = [3, 8, 10, 13, 14, 15, 1]
LABELLED = {5, 11, 12, 7, 6, 16}

NF = 3  # frames per track in container-level blocks


def _f(tag, i, n):
    """n float32 values that identify (tag, i)"""
    base = np.float32(tag % 9973) + np.float32(i) * np.float32(0.25)
    return (base + np.arange(n, dtype="<f4") * np.float32(0.5)).astype("<f4")


def _gaps(tag, i, a):
    """some blocks carry missing frames or samples that are not ordinary numbers: the container places
    the following block by the size such a block reports.  (Frame 0 column 0 stays: it identifies the
    block.)  a: (frames,) or (frames, components)"""
    mode = (tag + i) % 7
    if mode == 1:
        return a.astype("<f8")            # the caller's arrays need not be float32 ...
    if mode == 2:
        return a.astype(">f4")            # ... nor little-endian
    if len(a) < 3 or mode < 3:
        return a
    a = a.copy()
    if mode == 3:
        a[1] = np.nan                       # interior gap: two runs
    elif mode == 4:
        a[len(a) - 1] = np.nan              # trailing gap
    elif mode == 5:
        if a.ndim == 1:
            a[1] = np.inf
        else:
            a[1, 0] = -np.inf               # an infinite first component
    else:
        if a.ndim == 1:
            a[2] = -np.inf
        else:
            a[1, a.shape[1] - 1] = np.nan   # a present frame with one component missing
    return a


def _vp(tag, i):
    return CameraViewPort(np.array([tag % 1000, i], "<i4"), np.array([640 + i, 480], "<i4"))


def make_block(rt, k, tag, cd=None, md=None):
    lab = lambda i: f"b{tag}_{i}"  # noqa: E731
    if rt == 5:
        b = Data3D(100, NF, _f(tag, 90, 3), _f(tag, 91, 9).reshape(3, 3), _f(tag, 92, 3),
                   format=Data3dBlockFormat.byTrack if tag % 2 else Data3dBlockFormat.byTrackWithoutLinks)
        for i in range(k):
            b.add_track(MarkerTrack(lab(i), _gaps(tag, i, _f(tag, i, NF * 3).reshape(NF, 3))))
        if tag % 4 in (0, 3):
            # links: stored in the format with links, carried along but not stored in the other one
            from basictdf.tdfData3D import LinkType
            pairs = [(0, tag % 50), (1, 2)]
            b.links = pairs if tag % 8 >= 4 else np.array(pairs, dtype=LinkType.btype)   # a plain list of pairs, or records
    elif rt == 11:
        b = EMG(1000, NF + 49, 0.0)
        for i in range(k):
            b.addSignal(EMGTrack(lab(i), _gaps(tag, i, _f(tag, i, NF + 49))))
    elif rt == 12:
        b = ForceTorque3D(100, NF, _f(tag, 90, 3), _f(tag, 91, 9).reshape(3, 3), _f(tag, 92, 3))
        for i in range(k):
            b.add_track(ForceTorqueTrack(lab(i), _gaps(tag, i, _f(tag, i, NF * 3).reshape(NF, 3)),
                                         _f(tag, i + 20, NF * 3).reshape(NF, 3), _f(tag, i + 40, NF * 3).reshape(NF, 3)))
    elif rt == 9:
        b = ForcePlatformsDataBlock(np.float32(tag % 977), 100, NF)
        plats = [ForcePlatformData(_gaps(tag, i, _f(tag, i, NF * 2).reshape(NF, 2)),
                                   _f(tag, i + 20, NF * 3).reshape(NF, 3), _f(tag, i + 40, NF)) for i in range(k)]
        if tag % 3 == 1 and k >= 2:
            # the first platform on an explicit channel, the others through the bulk setter (which appends)
            b.add_platform(plats[0], 7 + tag % 5)
            b.platforms = plats[1:]
        elif tag % 3 == 2:
            b.platforms = iter(plats)
        else:
            for pl in plats:
                b.add_platform(pl)
    elif rt == 7:
        b = ForcePlatformsCalibrationDataBlock()
        for i in range(k):
            b.add_platform(ForcePlatformInfo(lab(i), _f(tag, i, 2), _f(tag, i + 20, 12).reshape(4, 3)))
    elif rt == 4:
        b = Data2D(k, 2, 100, np.float32(tag % 977), Data2DFlags.with_distortion)
        b._camMap = list(range(k))
        data = np.empty((2, k), dtype=object)
        for fr in range(2):
            for c in range(k):
                data[fr, c] = _f(tag, fr * 7 + c, 2).reshape(1, 2) if (fr + c) % 2 == 0 else None
        b.data = data
    elif rt == 2:
        cams = []
        for i in range(k):
            cams.append(SeelabCameraData(_f(tag, i, 9).reshape(3, 3).astype("<f8"), _f(tag, i + 1, 3).astype("<f8"),
                                         _f(tag, i + 2, 2).astype("<f8"), _f(tag, i + 3, 2).astype("<f8"),
                                         _f(tag, i + 4, 2).astype("<f8"), _f(tag, i + 5, 2).astype("<f8"),
                                         _f(tag, i + 6, 2).astype("<f8"), _vp(tag, i)))
        b = CalibrationDataBlock(DistorsionModel.noDistorsion, _f(tag, 90, 3), _f(tag, 91, 9).reshape(3, 3),
                                 _f(tag, 92, 3), np.arange(k, dtype="<i2"), cams, CalibrationDataBlockFormat.Seelab1)
    elif rt == 6:
        b = OpticalSetupBlock(channels=[OpticalChannelData(i, f"l{tag}", f"t{i}", f"n{tag}_{i}", _vp(tag, i))
                                         for i in range(k)])
    elif rt == 16:
        from basictdf.tdfEvents import TemporalEventsDataFormat
        # the "unknown" format code 0 is a valid block as far as the library is concerned
        b = TemporalEventsData(format=TemporalEventsDataFormat(tag % 3 != 0), start_time=np.float32(tag % 977))
        for i in range(k):
            nvals = 0 if (tag + i) % 5 == 4 else 1 + i % 2     # (an event that has not happened: no values)
            b.events.append(Event(lab(i), _f(tag, i, nvals),
                                  EventsDataType.singleEvent if i % 2 == 0 else EventsDataType.eventSequence))
    else:
        raise ValueError(rt)
    if cd is not None:
        b.creation_date = datetime.fromtimestamp(cd)
    if md is not None:
        b.last_modification_date = datetime.fromtimestamp(md)
    return b


def layout_format(rt, tag):
    """the format CODE the layout (spec/TdfLayout.tla, BlockStructs) assigns to the block
    make_block(rt, k, tag) is meant to be - independent of the library's enums"""
    if rt == 5:
        return 1 if tag % 2 else 2          # with links / without links
    if rt == 16:
        return 1 if tag % 3 != 0 else 0     # standard / unknown
    return {11: 1, 12: 1, 9: 1, 7: 2, 4: 2, 2: 1, 6: 1}[rt]


class NotABlock:
    """an object that is not a block at all"""


def _refused_format(rt):
    if rt == 5:
        return Data3dBlockFormat.byFrame
    if rt == 11:
        from basictdf.tdfEMG import EMGBlockFormat
        return EMGBlockFormat.byFrame
    if rt == 12:
        from basictdf.tdfForce3D import ForceTorque3DBlockFormat
        return ForceTorque3DBlockFormat.byFrame
    if rt == 9:
        from basictdf.tdfForcePlatformsData import ForcePlatformBlockFormat
        return ForcePlatformBlockFormat.byFrameISSFormat
    if rt == 4:
        from basictdf.tdfData2D import Data2DBlockFormat
        return Data2DBlockFormat.RTSFormat
    return None


def bad_block(rt, k, tag, variant, cd=None, md=None):
    """A block of type rt that cannot be encoded.
    variant: 'long_first' 'long_last' 'nonlatin_first' 'nonlatin_last' 'format' 'object'.
    Returns (obj, kind) with kind in {'text','format','object'}: types without
    text fields fall back to 'format', types without a refused format to 'object'."""
    k = max(k, 1)
    text_variant = variant not in ("format", "object", "format_attr", "date")
    if text_variant and rt not in LABELLED:
        variant = "format"
    if variant == "format" and _refused_format(rt) is None:
        variant = "long_last" if rt in LABELLED else "object"
    if variant == "object":
        return NotABlock(), "object"
    b = make_block(rt, k, tag, cd, md)
    if variant == "date":
        # a date one second past what the 32-bit field of the table entry can hold: the ENTRY cannot
        # be encoded (the block itself can)
        from datetime import datetime as _dt
        if tag % 2:
            b.creation_date = _dt.fromtimestamp(2 ** 31)
        else:
            b.last_modification_date = _dt.fromtimestamp(-2 ** 31 - 1)
        return b, "object"
    if variant == "format_attr":
        # a block object whose format attribute is not a format (a plain int): the table entry
        # cannot be built from it; encoders that never look at the format would still write it
        b.format = b.format.value
        return b, "object"
    if variant == "format":
        b.format = _refused_format(rt)
        return b, "format"
    pos = 0 if variant.endswith("first") else k - 1
    text = ("x" * 300) if variant.startswith("long") else "bad\u4e2d"
    if rt == 5:
        b.tracks[pos].label = text
    elif rt == 11:
        list(b)[pos].label = text
    elif rt == 12:
        b.tracks[pos].label = text
    elif rt == 7:
        b[pos].label = text
    elif rt == 6:
        b.channels[pos].camera_name = ("y" * 40) if variant.startswith("long") else text
    elif rt == 16:
        b.events[pos].label = text
    return b, "text"


BAD_VARIANTS = ["long_first", "long_last", "nonlatin_first", "nonlatin_last", "format", "object", "format_attr", "date"]


def encode(block):
    s = io.BytesIO()
    block._write(s)
    return s.getvalue()


def try_encode(block):
    try:
        return encode(block)
    except Exception:
        return None


def block_type_enum(code):
    return BlockType(code)
