"""Behaviour generation from TLC's labelled state graph.

parse_dot()   reads `tlc -dump dot,actionlabels` output (edges only; node
              labels are skipped) into an adjacency list
tours()       greedy transition tours: walks from the initial node that together
              take every (selected) edge at least once, split into traces of
              bounded length that each start with a Setup(k) edge
parse_label() turns TLC's instantiated action label into an abstract call
"""
import random
import re
from collections import defaultdict, deque

EDGE = re.compile(r'^(-?\d+) -> (-?\d+) \[label="(.*?)",color=')
NODE = re.compile(r'^(-?\d+) \[label=')


def parse_dot(path):
    adj = defaultdict(list)  # src -> [(dst, label)]
    init = None
    seen = set()
    with open(path, "r", errors="replace") as fh:
        for line in fh:
            m = EDGE.match(line)
            if m:
                src, dst, lab = int(m.group(1)), int(m.group(2)), m.group(3).replace('\\"', '"').replace("\\\\", "\\")
                key = (src, dst, lab)
                if key in seen:
                    continue
                seen.add(key)
                adj[src].append((dst, lab))
                continue
            if init is None:
                m = NODE.match(line)
                if m and "style = filled" in line:
                    init = int(m.group(1))
    if init is None:
        # the initial node is the only one without incoming edges
        indeg = defaultdict(int)
        for s, outs in adj.items():
            for d, _ in outs:
                if d != s:
                    indeg[d] += 1
        cands = [s for s in adj if indeg[s] == 0]
        init = cands[0]
    return init, adj


_INT = r"(-?\d+)"


def parse_label(lab):
    """-> dict(kind=..., ...) ; kinds: setup enter exit exit_exc allow_write add replace set remove"""
    m = re.match(r"Setup\((\d+)\)", lab)
    if m:
        return dict(kind="setup", k=int(m.group(1)))
    if lab.startswith(("Enter", "ReEnter")):
        return dict(kind="enter")
    if lab.startswith("ExitExc"):
        return dict(kind="exit_exc")
    if lab.startswith("Exit"):
        return dict(kind="exit")
    m = re.match(r'Set(Ok|No)\((\d+)(?:,\s*"(\w+)")?\)', lab)
    if m:
        return dict(kind="set", u=int(m.group(2)), c=-1, cause=m.group(3))
    m = re.search(r'op \|-> "(\w+)"', lab)
    if not m:
        m2 = re.match(r"(\w+)", lab)
        name = m2.group(1) if m2 else lab
        raise ValueError(f"unparsed label {lab!r} ({name})")
    op = m.group(1)
    out = dict(kind=op)
    if op in ("add", "replace", "set"):
        out["u"] = int(re.search(r"\bu \|-> " + _INT, lab).group(1))
        out["c"] = int(re.search(r"\bc \|-> " + _INT, lab).group(1))
    elif op == "remove":
        out["t"] = int(re.search(r'"remove", t \|-> ' + _INT, lab).group(1))
    m = re.search(r'\],\s*"(\w+)"\)$', lab)
    out["cause"] = m.group(1) if m else None
    if op == "read":
        m = re.search(r'what \|-> "(\w+)"', lab)
        out["what"] = m.group(1) if m else "len"
        m = re.search(r"\bt \|-> " + _INT, lab)
        out["t"] = int(m.group(1)) if m else 0
    return out


def tours(init, adj, rng, max_len=60, select=None, max_edges=None):
    """Yield lists of labels (each starting at the initial node).  select: optional
    predicate on (src, dst, label) choosing the edges that must be covered;
    max_edges: random subset size of the selected edges."""
    want = set()
    for s, outs in adj.items():
        for i, (d, lab) in enumerate(outs):
            if select is None or select(s, d, lab):
                want.add((s, i))
    if max_edges is not None and len(want) > max_edges:
        want = set(rng.sample(sorted(want), max_edges))
    pending = defaultdict(list)
    for s, i in want:
        pending[s].append(i)
    for s in pending:
        rng.shuffle(pending[s])
    total = len(want)

    def path_to_pending(src):
        """BFS over the graph: shortest edge path from src to a node with pending edges"""
        if pending.get(src):
            return []
        prev = {src: None}
        dq = deque([src])
        while dq:
            x = dq.popleft()
            for i, (d, lab) in enumerate(adj.get(x, ())):
                if d in prev:
                    continue
                prev[d] = (x, i)
                if pending.get(d):
                    path = []
                    cur = d
                    while prev[cur] is not None:
                        px, pi = prev[cur]
                        path.append((px, pi))
                        cur = px
                    path.reverse()
                    return path
                dq.append(d)
        return None

    covered = 0
    while covered < total:
        cur = init
        trace = []
        progressed = False
        while len(trace) < max_len:
            if pending.get(cur):
                # self loops first: they cost nothing in position
                lst = pending[cur]
                pick = None
                for j, i in enumerate(lst):
                    if adj[cur][i][0] == cur:
                        pick = j
                        break
                if pick is None:
                    pick = len(lst) - 1
                i = lst.pop(pick)
                d, lab = adj[cur][i]
                trace.append(lab)
                covered += 1
                progressed = True
                cur = d
                continue
            path = path_to_pending(cur)
            if path is None:
                break
            if len(trace) + len(path) >= max_len and trace:
                break
            for (x, i) in path:
                d, lab = adj[x][i]
                if i in pending.get(x, ()):  # taken on the way
                    pending[x].remove(i)
                    covered += 1
                    progressed = True
                trace.append(lab)
                cur = d
        if not progressed:
            # unreachable leftovers (should not happen in a graph explored from init)
            break
        yield trace


def stats(adj):
    return dict(nodes=len(set(adj) | {d for outs in adj.values() for d, _ in outs}),
                edges=sum(len(o) for o in adj.values()))
