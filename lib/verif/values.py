"""Concretisation of the opaque value ids of the codec specification.

A Values object maps ids to concrete floats / integers / texts, injectively and
reproducibly, and back (by bit pattern), so that alpha(decode(encode(gamma(b))))
can be compared with b exactly.  `specials=True` lets a few ids take the
special values the properties name (+-0, denormals, extreme magnitudes, ends of
the integer ranges, boundary-length and cp1252-high texts)."""
import struct

import numpy as np

F32_SPECIALS = [0.0, -0.0, 1e-45, -1e-45, 3.4028235e38, -3.4028235e38, 1.17549435e-38, 1.0000001, 0.99999994,
                1e-40, 16777216.0, -16777217.0, 3.1415927, 1e30]
F64_SPECIALS = [0.0, -0.0, 5e-324, -5e-324, 1.7976931348623157e308, -1.7976931348623157e308, 2.2250738585072014e-308,
                1.0000000000000002, 0.9999999999999999, 1e-310, 9007199254740993.0, 0.1, 1e300]
INT_SPECIALS = {
    "i32": [0, -1, 2 ** 31 - 1, -2 ** 31, 1],
    "u32": [0, 2 ** 32 - 1, 2 ** 31, 1],
    "u31": [0, 2 ** 31 - 1, 1],
    "i16": [-32768, 32767, -1, 0],
    "u16": [65535, 0, 32768],
    "u15": [0, 32767],
}
INT_RANGE = {"i32": (-2 ** 31, 2 ** 31 - 1), "u32": (0, 2 ** 32 - 1), "u31": (0, 2 ** 31 - 1), "i16": (-32768, 32767),
             "u16": (0, 65535), "u15": (0, 32767)}
# every cp1252-encodable non-NUL character
CP1252 = [bytes([i]).decode("cp1252") for i in range(1, 256) if i not in (0x81, 0x8D, 0x8F, 0x90, 0x9D)]


class Values:
    def __init__(self, r=0, specials=True, zero_new=False, huge=False, adjacent=False):
        self.huge = huge          # every float near the top of its range (sums of two overflow)
        self.adjacent = adjacent  # consecutive ids map to consecutive representable floats
        self.r = r
        self.specials = specials
        self.zero_new = zero_new  # ids 900..999 (samples that appear in a mutant) become exactly 0.0
        self.f = {}  # (ty, id) -> value
        self.fr = {}  # (ty, bits) -> id
        self.i = {}
        self.ir = {}
        self.t = {}
        self.tr = {}
        self.used = set()

    # ------------------------------------------------------------ floats
    def flt(self, ty, vid):
        key = (ty, vid)
        if self.zero_new and 900 <= vid < 1000:
            return np.float32(0.0) if ty == "f32" else np.float64(0.0)
        if key in self.f:
            return self.f[key]
        if self.huge or self.adjacent:
            if self.huge:
                val = (3.0e38 - vid * 1.0e32) if ty == "f32" else (1.7e308 - vid * 1.0e300)
                val = np.float32(val) if ty == "f32" else np.float64(val)
            else:
                one = np.float32(12.5) if ty == "f32" else np.float64(12.5)
                bits = one.view("<u4" if ty == "f32" else "<u8") + np.array(vid, dtype="<u4" if ty == "f32" else "<u8")
                val = bits.view("<f4" if ty == "f32" else "<f8")
            self.f[key] = val
            self.fr[(ty, val.tobytes())] = vid
            return val
        pool = F32_SPECIALS if ty == "f32" else F64_SPECIALS
        slot = (vid * 7 + self.r * 13) % 97
        val = None
        if self.specials and slot < len(pool) and (ty, "s", slot) not in self.used:
            self.used.add((ty, "s", slot))
            val = pool[slot]
        if val is None:
            val = vid * 0.5 + 0.25 + self.r * 4096.0
        val = np.float32(val) if ty == "f32" else np.float64(val)
        bits = val.tobytes()
        if (ty, bits) in self.fr:
            raise AssertionError(f"float concretisation not injective at id {vid}")
        self.f[key] = val
        self.fr[(ty, bits)] = vid
        return val

    def flt_id(self, ty, value):
        v = np.float32(value) if ty == "f32" else np.float64(value)
        return self.fr.get((ty, v.tobytes()), ("?", ty, repr(float(v))))

    # ------------------------------------------------------------ integers
    def int(self, pool, vid):
        key = (pool, vid)
        if key in self.i:
            return self.i[key]
        sp = INT_SPECIALS[pool]
        slot = (vid * 5 + self.r * 11) % 31
        val = None
        if self.specials and slot < len(sp) and (pool, "s", slot) not in self.used:
            self.used.add((pool, "s", slot))
            val = sp[slot]
        if val is None:
            lo, hi = INT_RANGE[pool]
            val = vid * 3 + 5 + (self.r % 7) * 1000
            if val > hi:
                val = lo + 2 + (val % (hi - lo - 4))
        if (pool, val) in self.ir:
            # collision with a special handed out earlier: fall back to a fresh slot
            val = vid * 3 + 6
        if (pool, val) in self.ir:
            raise AssertionError(f"int concretisation not injective at id {vid}")
        self.i[key] = val
        self.ir[(pool, val)] = vid
        return val

    def int_id(self, pool, value):
        return self.ir.get((pool, int(value)), ("?", pool, int(value)))

    # ------------------------------------------------------------ texts
    def text(self, vid, width):
        key = (width, vid)
        if key in self.t:
            return self.t[key]
        mode = (vid + self.r) % 6 if self.specials else 0
        if mode == 1 and (width, "empty") not in self.used:
            self.used.add((width, "empty"))
            s = ""
        elif mode == 2:
            s = f"é€ß{vid}œ™"[: width - 1]
        elif mode == 3:
            s = (f"{vid}:" + "x" * width)[: width - 1]  # longest text that fits
        elif mode == 4:
            s = f" L{vid} "
        elif mode == 5:
            ch = CP1252[(vid * 17 + self.r) % len(CP1252)]
            s = f"{vid}{ch}{ch}"
        else:
            s = f"L{vid}"
        if (width, s) in self.tr:
            s = f"L{vid}#"
        self.t[key] = s
        self.tr[(width, s)] = vid
        return s

    def text_id(self, width, s):
        return self.tr.get((width, s), ("?", "text", s))


PRIM = {"i16": "<h", "u16": "<H", "i32": "<i", "u32": "<I", "f32": "<f", "f64": "<d"}


class StartZeroValues(Values):
    """one chosen float32 id (a header scalar such as the start time) is +0.0 or -0.0"""

    def __init__(self, r, vid, negative):
        Values.__init__(self, r, specials=False)
        val = np.float32(-0.0 if negative else 0.0)
        self.f[("f32", vid)] = val
        self.fr[("f32", val.tobytes())] = vid


class FreshTextValues(Values):
    """every text carries a salt, so that the library meets it for the first time"""

    def __init__(self, r, salt):
        Values.__init__(self, r, specials=False)
        self.salt = salt

    def text(self, vid, width):
        key = (width, vid)
        if key not in self.t:
            s = f"T{vid}~{self.salt}"[: width - 1]
            self.t[key] = s
            self.tr[(width, s)] = vid
        return self.t[key]


class ExoticValues(Values):
    """float32 samples that are not ordinary numbers: +-inf and isolated NaN components.  What the
    library makes of such a frame (present or missing) is not fixed by any property, only that the
    size it reports is the size it writes - so these values are used for size checks alone."""

    def flt(self, ty, vid):
        if ty == "f32":
            m = (vid + self.r) % 5
            if m == 0:
                return np.float32(np.inf)
            if m == 1:
                return np.float32(np.nan)
            if m == 2:
                return np.float32(-np.inf)
        return Values.flt(self, ty, vid)


def pack_prim(ty, value):
    if ty in ("f32", "f64"):
        return (np.float32(value) if ty == "f32" else np.float64(value)).tobytes()
    return struct.pack(PRIM[ty], int(value))


class ChanZeroValues(Values):
    """the k-th distinct 16-bit integer payload asked for (channel / camera numbers) is 0 - the
    value an `if not channel` test mistakes for 'not given'"""

    def __init__(self, r, k):
        super().__init__(r, specials=False)
        self.k = k
        self.seen16 = []

    def int(self, pool, vid):
        if pool in ("i16", "u16", "u15"):
            if vid not in self.seen16:
                self.seen16.append(vid)
            if self.seen16.index(vid) == self.k:
                self.i[(pool, vid)] = 0
                self.ir[(pool, 0)] = vid
                return 0
        return super().int(pool, vid)
