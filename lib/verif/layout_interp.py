"""M3 (DESIGN 4.3): a generic decoder / encoder that interprets the JSON export of
the TLA+ layout table (spec/TdfLayout.tla -> build/layout.json).  It is DERIVED
from the specification - no field order or width is written down here - and is
cross-validated against TLC on the whole enumerated domain (its encoding of
every vector must equal the packed specification tokens).  It is the byte-level
oracle where TLC cannot hold the data: the 2.1 MB BTS capture and large
randomly generated blocks.

Values are plain Python: ints, texts, floats as bit-pattern strings ("f32:3f800000"),
a missing frame is [], frames are lists of component values.
"""
import json
import struct

import numpy as np

PRIM = {"i16": ("<h", 2), "u16": ("<H", 2), "i32": ("<i", 4), "u32": ("<I", 4), "f32": ("<f", 4), "f64": ("<d", 8)}


def fbits(ty, raw):
    return f"{ty}:{raw[::-1].hex()}"


class Layout:
    def __init__(self, path):
        with open(path) as fh:
            d = json.load(fh)
        self.layout = d["layout"]
        self.blocks = d["blocks"]
        self.by_type = {v["type"]: k for k, v in self.blocks.items()}

    # ------------------------------------------------------------ decode
    def decode(self, struct_name, data, fmt, pos=0, nf=0):
        """-> (value dict, new position, info) ; info: dontcare spans, run tables"""
        info = dict(dontcare=[], runs=[])
        v, pos = self._dec_struct(self.layout[struct_name], data, pos, fmt, nf, info)
        return v, pos, info

    def _prim(self, ty, data, pos):
        f, w = PRIM[ty]
        raw = data[pos:pos + w]
        if len(raw) != w:
            raise ValueError("truncated")
        if ty in ("f32", "f64"):
            return fbits(ty, raw), pos + w
        return struct.unpack(f, raw)[0], pos + w

    def _dec_struct(self, fields, data, pos, fmt, nf, info):
        v = {}
        cnt = {}
        for f in fields:
            pos = self._dec_field(f, data, pos, fmt, nf, info, v, cnt)
        return v, pos

    def _dec_field(self, f, data, pos, fmt, nf, info, v, cnt):
        k = f["k"]
        if k == "int":
            x, pos = self._prim(f["ty"], data, pos)
            v[f["name"]] = x + f["bias"]
        elif k in ("iid", "flt", "enum"):
            v[f["name"]], pos = self._prim(f["ty"], data, pos)
        elif k == "count":
            cnt[f["of"]], pos = self._prim(f["ty"], data, pos)
        elif k in ("arr", "iarr", "seq", "varr"):
            n = f["n"] if k in ("arr", "iarr") else cnt[f["name"] if k == "seq" else f["of"]]
            out = []
            for _ in range(n):
                x, pos = self._prim(f["ty"], data, pos)
                out.append(x)
            v[f["name"]] = out
        elif k == "str":
            raw = data[pos:pos + f["w"]]
            if len(raw) != f["w"]:
                raise ValueError("truncated")
            cut = raw.find(b"\0")
            text = raw if cut < 0 else raw[:cut]
            v[f["name"]] = text.decode("cp1252")
            if cut >= 0 and cut + 1 < f["w"]:
                info["dontcare"].append((pos + cut + 1, pos + f["w"]))
            pos += f["w"]
        elif k == "pad":
            info["dontcare"].append((pos, pos + f["n"]))
            pos += f["n"]
        elif k == "raw":
            v[f["name"]] = data[pos:pos + f["n"]].hex()
            pos += f["n"]
        elif k in ("list", "case"):
            item = f["item"] if k == "list" else self._alt(f["alts"], fmt)
            nfr = v[f["nf"]] if k == "list" and f["nf"] else 0
            out = []
            for _ in range(cnt[f["name"]]):
                x, pos = self._dec_struct(self.layout[item], data, pos, fmt, nfr, info)
                out.append(x)
            v[f["name"]] = out
        elif k == "rle":
            nseg, pos = self._prim("i32", data, pos)
            info["dontcare"].append((pos, pos + 4))
            pos += 4
            tab = []
            for _ in range(nseg):
                s, pos = self._prim("i32", data, pos)
                n, pos = self._prim("i32", data, pos)
                tab.append((s, n))
            frames = [[] for _ in range(nf)]
            for s, n in tab:
                for q in range(n):
                    comp = []
                    for _ in range(f["per"]):
                        x, pos = self._prim(f["ty"], data, pos)
                        comp.append(x)
                    if 0 <= s + q < nf:
                        frames[s + q] = comp
            v[f["name"]] = frames
            info["runs"].append(tab)
        elif k == "cond":
            if fmt in f["in"]:
                for g in f["body"]:
                    pos = self._dec_field(g, data, pos, fmt, nf, info, v, cnt)
            else:
                for g in f["body"]:
                    if g["k"] == "list":
                        v[g["name"]] = []
        elif k == "pck":
            nc, nfr = cnt[f["cams"]], v[f["nf"]]
            counts = np.frombuffer(data[pos:pos + 2 * nc * nfr], dtype="<u2").reshape(nc, nfr) if nc * nfr else np.zeros((nc, nfr), int)
            pos += 2 * nc * nfr
            out = []
            for fr in range(nfr):
                row = []
                for c in range(nc):
                    pts = []
                    for _ in range(int(counts[c, fr])):
                        x, pos = self._prim("f32", data, pos)
                        y, pos = self._prim("f32", data, pos)
                        pts.append([x, y])
                    row.append(pts)
                out.append(row)
            v[f["name"]] = out
        else:
            raise ValueError(k)
        return pos

    @staticmethod
    def _alt(alts, fmt):
        if isinstance(alts, list):
            return alts[fmt - 1]
        return alts[str(fmt)]

    # ------------------------------------------------------------ encode
    def encode(self, struct_name, v, fmt):
        out = bytearray()
        self._enc_struct(self.layout[struct_name], v, fmt, out)
        return bytes(out)

    @staticmethod
    def _put(ty, x, out):
        if ty in ("f32", "f64"):
            out += bytes.fromhex(x.split(":")[1])[::-1]
        else:
            out += struct.pack(PRIM[ty][0], x)

    def _enc_struct(self, fields, v, fmt, out):
        for f in fields:
            self._enc_field(f, v, fmt, out)

    def _enc_field(self, f, v, fmt, out):
        k = f["k"]
        if k == "int":
            self._put(f["ty"], v[f["name"]] - f["bias"], out)
        elif k in ("iid", "flt", "enum"):
            self._put(f["ty"], v[f["name"]], out)
        elif k == "count":
            self._put(f["ty"], len(v[f["of"]]), out)
        elif k in ("arr", "iarr", "seq", "varr"):
            for x in v[f["name"]]:
                self._put(f["ty"], x, out)
        elif k == "str":
            raw = v[f["name"]].encode("cp1252") + b"\0"
            if len(raw) > f["w"]:
                raise ValueError("text does not fit")
            out += raw + b"\0" * (f["w"] - len(raw))
        elif k == "pad":
            out += b"\0" * f["n"]
        elif k == "raw":
            out += bytes.fromhex(v[f["name"]])
        elif k in ("list", "case"):
            item = f["item"] if k == "list" else self._alt(f["alts"], fmt)
            for x in v[f["name"]]:
                self._enc_struct(self.layout[item], x, fmt, out)
        elif k == "rle":
            frames = v[f["name"]]
            runs = []
            i = 0
            while i < len(frames):
                if frames[i]:
                    j = i
                    while j + 1 < len(frames) and frames[j + 1]:
                        j += 1
                    runs.append((i, j - i + 1))
                    i = j + 1
                else:
                    i += 1
            out += struct.pack("<i", len(runs)) + b"\0" * 4
            for s, n in runs:
                out += struct.pack("<ii", s, n)
            for s, n in runs:
                for q in range(n):
                    for x in frames[s + q]:
                        self._put(f["ty"], x, out)
        elif k == "cond":
            if fmt in f["in"]:
                for g in f["body"]:
                    self._enc_field(g, v, fmt, out)
        elif k == "pck":
            data = v[f["name"]]
            nfr, nc = len(data), len(v[f["cams"]])
            for c in range(nc):
                for fr in range(nfr):
                    out += struct.pack("<H", len(data[fr][c]))
            for fr in range(nfr):
                for c in range(nc):
                    for x, y in data[fr][c]:
                        self._put("f32", x, out)
                        self._put("f32", y, out)
        else:
            raise ValueError(k)


class RawValues:
    """value 'concretisation' that is the identity: used with absblocks.alpha to project a
    library object to the plain values layout_interp produces"""

    def flt_id(self, ty, value):
        v = np.float32(value) if ty == "f32" else np.float64(value)
        return fbits(ty, v.tobytes())

    def int_id(self, pool, value):
        return int(value)

    def text_id(self, width, s):
        return s
