"""Block-object checks (C15 C16 C18 C20): tours of the state graph of
spec/TdfObjects.tla (one model per kind of block) are executed on real block
objects - two live instances - and the public projection of BOTH instances
after every call is judged by TLC against spec/TdfObjectsTrace.tla."""
import io
import json
import os
import pickle
import random
import re
import time

import numpy as np

from . import common, tlc, tours
from . import SRC  # noqa: F401
from basictdf.tdfData3D import Data3D, MarkerTrack
from basictdf.tdfEMG import EMG, EMGTrack
from basictdf.tdfEvents import Event, EventsDataType, TemporalEventsData
from basictdf.tdfForce3D import ForceTorque3D, ForceTorqueTrack
from basictdf.tdfForcePlatformsCalibration import ForcePlatformInfo, ForcePlatformsCalibrationDataBlock
from basictdf.tdfForcePlatformsData import ForcePlatformData, ForcePlatformsDataBlock
from basictdf.tdfOpticalSystem import OpticalChannelData, OpticalSetupBlock
from basictdf.tdfTypes import CameraViewPort

KINDS = ["EMG", "FPCal", "FPData", "Data3D", "Force", "Events", "Optical"]
# "EMG@c": the EMG class driven by the model MC_obj_EMGc.cfg (one label, three items: deeper channel histories)
KINDS_OF = {"C02": ["EMG", "FPData", "Data3D", "Events"], "C15": ["EMG", "EMG@c", "FPCal", "FPData"],
            # "X@e": the small models in which the content of items is edited in place
            "C20x": ["EMG@e", "Data3D@e", "Force@e", "FPData@e", "Events@e"], "C16": ["Data3D", "Force", "EMG"], "C18": ["Data3D", "Force", "EMG", "Events"],
            "C20": KINDS + ["EMG@e", "Data3D@e", "Force@e", "FPData@e", "Events@e", "Optical@e", "FPCal@e", "Unused"]}
CHAN_KINDS = {"EMG", "FPCal", "FPData"}
NI = 2          # instances the model drives
SLOTS = 3       # slot 3: the "twin" of a decode (the same bytes decoded a second time)
GEOM = (np.ones(3, "<f4"), np.eye(3, dtype="<f4"), np.zeros(3, "<f4"))


def fresh_str(text):
    """an equal string that is a different object (keys are compared by value, not identity)"""
    return text.encode("utf-8").decode("utf-8") if len(text) > 1 else text


from datetime import datetime as _dt  # noqa: E402
UNUSED_DATE0 = _dt(2001, 1, 1)


class Harness:
    def __init__(self, kind, seed):
        self.kind = kind
        self.rng = random.Random(seed)
        self.inst = [None] * (NI + 1)
        self.reg = {}  # id(obj) -> (small id, obj)
        self.counter = 0
        variants = [{1: "L1", 2: "l1"}, {1: "L1", 2: " L1 "}, {1: "", 2: "L2"}, {1: "Ünï€", 2: "ünï€"}]
        self.labels = dict(variants[seed % len(variants)])
        self.labels[9] = "no such label"
        self.tagc = 0
        self.digests = {}
        self.handed = {}      # instance -> list object handed to the block by the last assign / construct
        self.share_ok = False
        self.nf = [3, 1, 0, 2][seed % 4]   # frame count of the blocks of this history
        if kind == "EMG" and seed % 16 == 5:
            self.nf = 120000                # a count at which "almost equal" is not equal
        if kind == "FPData" and self.nf == 0:
            self.nf = 2                    # the tag of an unlabelled platform lives in its first frame
        self.inst = [None] * (SLOTS + 1)
        self.work = None
        # in every other history the second constructed block has one frame more than the first, so
        # that an item leaking from one block into the other has the wrong length there
        # force-platform data channels are unsigned 16-bit: in every third history the channel numbers
        # sit at the top of that range
        self.chan_base = 65533 if (kind == "FPData" and seed % 3 == 2) else 0
        self.nops = {}            # slot -> changes made to the block in it since its construction
        self.share_ctor = False   # directed histories: always hand the previous constructor's list over again
        self.skew = (seed // 4) % 2 == 1
        self.frames = {}      # slot -> frame count of the block now in it

    # ------------------------------------------------------------ items
    def ident(self, obj):
        k = id(obj)
        if k not in self.reg:
            self.counter += 1
            self.reg[k] = (self.counter, obj)
        return self.reg[k][0]

    def content_id(self, item):
        """identity of the CONTENT of an item (its samples / geometry / values)"""
        import hashlib
        k = self.kind
        try:
            if k in ("EMG", "Data3D"):
                raw = np.asarray(item.data).tobytes()
            elif k == "Force":
                raw = b"".join(np.asarray(a).tobytes() for a in (item.application_point, item.force, item.torque))
            elif k == "FPData":
                raw = b"".join(np.asarray(a).tobytes() for a in (item.application_point, item.force, item.torque))
            elif k == "FPCal":
                raw = np.asarray(item.size).tobytes() + np.asarray(item.position).tobytes()
            elif k == "Events":
                raw = np.asarray(item.values).tobytes() + bytes([item.type.value])
            else:
                raw = repr((item.logical_camera_index, np.asarray(item.camera_viewport.origin).tolist())).encode()
        except Exception:  # noqa: BLE001
            raw = b"?"
        d = hashlib.sha256(raw).hexdigest()
        if d not in self.digests:
            self.digests[d] = len(self.digests) + 1
        return self.digests[d]

    def label_id(self, item):
        if self.kind == "FPData":
            try:
                return int(round(float(np.asarray(item.force)[0][0]))) % 10
            except Exception:  # noqa: BLE001
                return -1
        text = item.camera_name if self.kind == "Optical" else item.label
        for k, v in self.labels.items():
            if v == text:
                return k
        return -1

    def new_item(self, lab, good=True, inst=1):
        """a fresh item object for the block in slot `inst`; good=False: wrong frame count, an item
        whose data was replaced by an array of another length after construction, an item of
        another block family, or not an item at all"""
        self.tagc += 1
        t = self.tagc
        text = self.labels[lab]
        NF = self.frames_of(inst)
        n = NF if good else NF + 1 + t % 2
        if not good and t % 5 == 2 and self.kind in ("EMG", "Data3D") and NF > 0:
            # built with the right length, then its data attribute replaced by a shorter array
            a = np.arange(NF * 3, dtype="<f4").reshape(NF, 3) + t
            it = EMGTrack(text, a[:, 0].copy()) if self.kind == "EMG" else MarkerTrack(text, a.copy())
            it.data = it.data[: NF - 1] if NF > 1 else np.concatenate([it.data, it.data])
            return it
        if not good and t % 5 == 3 and self.kind == "Data3D" and NF > 0 and self.inst[inst] is not None and len(self.inst[inst]):
            # an object of ANOTHER kind that compares equal to a track the block holds (same label, same data)
            twin_of = list(self.inst[inst])[0]
            try:
                return EMGTrack(twin_of.label, np.array(twin_of.data))
            except Exception:  # noqa: BLE001
                return None
        if not good and t % 5 == 4 and self.kind in ("EMG", "Data3D") and NF > 0:
            # an item of the right kind whose data is a plain nested list (no shape): whatever
            # exception that provokes, the block must stay as it was
            rows = [[float(t + r), 1.0, 2.0] for r in range(NF)]
            try:
                return EMGTrack(text, [r[0] for r in rows]) if self.kind == "EMG" else MarkerTrack(text, rows)
            except Exception:  # noqa: BLE001
                return None        # (a library that refuses such data in the item's own constructor: another non-item)
        if not good and t % 5 == 1 and self.kind in ("EMG", "Data3D", "Force"):
            # an item of ANOTHER block family with exactly the right number of frames
            a = np.arange(NF * 3, dtype="<f4").reshape(NF, 3)
            if self.kind == "Data3D":
                return ForceTorqueTrack(text, a, a.copy(), a.copy())
            return MarkerTrack(text, a)
        if not good and (t % 3 == 0 or self.kind not in ("EMG", "Data3D", "Force")):
            # only the kinds whose items carry a frame count are required to refuse a wrong length (C16)
            return [None, "a string", 42, object()][t % 4]
        base = np.arange(n * 9, dtype="<f4").reshape(n, 9) + 100 * t
        if good and t % 4 == 0 and self.kind in ("EMG", "Data3D", "Force"):
            base[:] = np.nan    # a track that was never seen: every frame missing
        elif good and t % 4 == 3 and n >= 2 and self.kind in ("EMG", "Data3D", "Force", "FPData"):
            base[n - 1] = np.nan   # lost before the end: one run from frame 0, trailing frames missing
        elif good and t % 4 == 2 and n >= 3 and self.kind in ("EMG", "Data3D", "Force"):
            base[1] = np.nan       # a gap in the middle: two runs
        k = self.kind
        if k == "EMG":
            return EMGTrack(text, base[:, 0].copy())
        if k == "Data3D":
            return MarkerTrack(text, base[:, 0:3].copy())
        if k == "Force":
            return ForceTorqueTrack(text, base[:, 0:3].copy(), base[:, 3:6].copy(), base[:, 6:9].copy())
        if k == "FPCal":
            return ForcePlatformInfo(text, np.array([t, t + 1], "<f4"), np.arange(12, dtype="<f4").reshape(4, 3) + t)
        if k == "FPData":
            f = base[:, 2:5].copy()
            f[:, 0] = lab + 10 * t  # the 'label' of an unlabelled item lives in its data
            return ForcePlatformData(base[:, 0:2].copy(), f, base[:, 5].copy())
        if k == "Events":
            if t % 3 == 0:
                return Event(text, [], EventsDataType.singleEvent)
            if t % 6 == 1:
                # several events are built from ONE float64 array of the caller: each must own its values
                if getattr(self, "ev_src", None) is None:
                    self.ev_src = np.array([4242.0], dtype="<f8")
                return Event(text, self.ev_src, EventsDataType.singleEvent)
            ev = Event(text, [float(t)], EventsDataType.singleEvent)
            if t % 6 == 2:
                ev.values = np.array([float(t)], dtype="<f8")     # values replaced after construction, other dtype
            return ev
        if k == "Optical":
            return OpticalChannelData(t, "lens", "type", text, CameraViewPort(np.array([0, t], "<i4"), np.array([1, 2], "<i4")))
        raise ValueError(k)

    def new_block(self, items, inst=1):
        k = self.kind
        NF = self.base_frames(inst)
        if k == "EMG":
            return EMG(1000, NF)
        if k == "Data3D":
            return Data3D(100, NF, *GEOM)
        if k == "Force":
            return ForceTorque3D(100, NF, *GEOM)
        if k == "FPCal":
            return ForcePlatformsCalibrationDataBlock(platforms=items) if items else (
                ForcePlatformsCalibrationDataBlock() if self.rng.random() < 0.5 else ForcePlatformsCalibrationDataBlock(platforms=[]))
        if k == "FPData":
            return ForcePlatformsDataBlock(0.0, 100, NF)
        if k == "Events":
            return TemporalEventsData()
        if k == "Optical":
            return OpticalSetupBlock(channels=items) if items else OpticalSetupBlock()
        if k == "Unused":
            from basictdf.tdfBlock import UnusedBlock
            u = UnusedBlock()
            u.creation_date = UNUSED_DATE0
            return u
        raise ValueError(k)

    # ------------------------------------------------------------ projection
    def items_of(self, b):
        k = self.kind
        if k == "Unused":
            return []
        if k == "FPCal":
            return [b[i] for i in range(len(b))]
        if k == "FPData":
            return list(b.platforms)
        return list(b)

    def chans_of(self, b):
        k = self.kind
        if k == "EMG" and self.nf == 0:
            return []
        if k == "EMG":
            try:
                raw = self.encode_bytes(b)
                n = int(np.frombuffer(raw[0:4], "<i4")[0])
                return [int(x) for x in np.frombuffer(raw[16:16 + 2 * n], "<i2")]
            except Exception:  # noqa: BLE001
                return [-99]
        if k == "FPCal":
            return [int(c) for c, _ in b.platforms]
        if k == "FPData":
            return [int(c) - self.chan_base for c, _ in b]
        return []

    def encode_bytes(self, b):
        s = io.BytesIO()
        b._write(s)
        return s.getvalue()

    def world(self):
        out = []
        for i in range(1, SLOTS + 1):
            b = self.inst[i]
            if b is None:
                out.append(dict(ex=False, items=[], chans=[], aux=0, szok=True, lenok=True))
                continue
            try:
                items = self.items_of(b)
                out.append(dict(ex=True, items=[dict(id=self.ident(x), label=self.label_id(x), val=self.content_id(x)) for x in items],
                                chans=self.chans_of(b), aux=self.aux_of(b), szok=self.size_ok(b), lenok=self.lengths_ok(i, items)))
            except Exception as x:  # noqa: BLE001
                out.append(dict(ex=True, items=[dict(id=-1, label=-1, val=-1)], chans=[-98, -97], aux=-1, szok=True, lenok=True))
        return out

    def frames_of(self, i):
        """frame count of the block in slot i: the second instance of a history has one frame more,
        so that an item that leaks from one block into the other has the wrong length there"""
        return self.frames.get(i, self.base_frames(i))

    def base_frames(self, i):
        if self.skew and self.kind in ("EMG", "Data3D", "Force") and self.nf > 0 and i == 2:
            return self.nf + 1
        return self.nf

    def lengths_ok(self, i, items):
        if self.kind not in ("EMG", "Data3D", "Force"):
            return True
        want = self.frames_of(i)
        for x in items:
            try:
                n = len(x.data) if self.kind in ("EMG", "Data3D") else len(x.application_point)
            except Exception:  # noqa: BLE001
                return False
            if n != want:
                return False
        return True

    def size_ok(self, b):
        """declared size == size of the encoding (blocks without frames cannot be encoded)"""
        if self.nf == 0 and self.kind in ("EMG", "Data3D", "Force", "FPData") and len(self.items_of(b)):
            return True
        try:
            return bool(b.nBytes == len(self.encode_bytes(b)))
        except Exception:  # noqa: BLE001
            return False

    def aux_of(self, b):
        """number of marker links a 3D block encodes (format byTrack: i32 at offset 80); for the
        placeholder of an unused slot: its creation date, in days after the date it was given"""
        if self.kind == "Unused":
            return (b.creation_date - UNUSED_DATE0).days
        if self.kind != "Data3D":
            return 0
        if self.nf == 0 and len(b):
            links = getattr(b, "links", [])
            return len(links)
        raw = self.encode_bytes(b)
        return int(np.frombuffer(raw[80:84], "<i4")[0])

    def decode_twice(self, b):
        """the same bytes decoded two times; alternately straight from the bytes and
        through a TDF file read twice inside one context"""
        if self.kind == "Unused":
            # unused slots of a new file, read back (the dates of a block are not in its bytes: the
            # harness gives the decoded placeholders the date of their source, separately)
            from basictdf import Tdf
            self.tagc += 1
            path = os.path.join(self.work or common.scratch(), f"unused{self.tagc}.tdf")
            try:
                Tdf.new(path)
                with Tdf(path) as f:
                    if self.tagc % 3 == 0:
                        listing = f.blocks          # two slots of one listing
                        first, second = listing[self.tagc % 14], listing[(self.tagc + 3) % 14]
                    else:
                        first, second = f.get_block(self.tagc % 14), (f.blocks[(self.tagc + 3) % 14] if self.tagc % 2 else f[(self.tagc + 5) % 14])
                first.creation_date = b.creation_date
                if second is not first:
                    second.creation_date = b.creation_date
                return first, second
            finally:
                if os.path.exists(path):
                    os.unlink(path)
        raw = self.encode_bytes(b)
        self.tagc += 1
        if self.tagc % 2 == 0 or self.work is None:
            # (numpy.empty promises nothing about the memory it hands out: two different fills make a
            # decoder that leaves part of an array unwritten visible as two different results)
            from .codec import Poison
            with Poison(0x41):
                first = type(b)._build(io.BytesIO(raw), b.format.value)
            with Poison(0xC3):
                second = type(b)._build(io.BytesIO(raw), b.format.value)
            return first, second
        from basictdf import Tdf
        from basictdf.tdfBlock import BlockType
        path = os.path.join(self.work, f"twin{self.tagc}.tdf")
        try:
            with Tdf.new(path).allow_write() as f:
                f.add_block(b)
            with Tdf(path) as f:
                first = f.get_block(b.type)
                second = f[b.type] if self.tagc % 4 == 1 else f.get_block(b.type)
            return first, second
        finally:
            if os.path.exists(path):
                os.unlink(path)

    # ------------------------------------------------------------ calls
    def run(self, lab):
        """lab: abstract call parsed from a TLC label; returns the trace event"""
        op = lab["op"]
        i = lab["i"]
        b = self.inst[i]
        if op == "construct":
            self.nops[i] = 0
        elif op not in ("lookup", "encode", "decode", "poke", "assign_from"):
            self.nops[i] = self.nops.get(i, 0) + 1
        o = dict(op=op, i=i)
        val = []
        fn = None
        if op == "construct":
            prev = getattr(self, "ctor_list", None)
            if (prev is not None and (self.tagc % 2 == 0 or self.share_ctor) and len(prev[0]) == len(lab["labels"]) > 0
                    and prev[1] == lab["labels"] and prev[2] != i and prev[3] == self.base_frames(i)):
                # the SAME list object is handed to a second constructor: the two blocks hold the same
                # item objects (the caller's choice) but must not share their containers
                items = prev[0]
                self.share_ok = True
            else:
                old = self.frames.get(i)
                self.frames[i] = self.base_frames(i)
                items = [self.new_item(l, inst=i) for l in lab["labels"]]
                if old is None:
                    del self.frames[i]
                else:
                    self.frames[i] = old
            self.ctor_list = (items, list(lab["labels"]), i, self.base_frames(i))
            o["xs"] = [dict(id=self.ident(x), label=l, good=True, val=self.content_id(x)) for x, l in zip(items, lab["labels"])]
            self.handed.pop(i, None)   # (a list given to a constructor may be kept by the block)

            def fn():
                self.inst[i] = self.new_block(items, inst=i)
                self.frames[i] = self.base_frames(i)
        elif op == "decode":
            j = lab["j"]
            o["j"] = j
            o["twin"] = SLOTS

            def fn():
                self.inst[j], self.inst[SLOTS] = self.decode_twice(b)
                self.frames[j] = self.frames[SLOTS] = self.frames_of(i)
        elif op == "add":
            x = self.new_item(lab["label"], lab["good"], inst=i)
            c = lab["c"]
            o.update(x=dict(id=self.ident(x), label=lab["label"], val=self.content_id(x) if lab["good"] else 0), good=lab["good"], c=c)
            k = self.kind

            def fn():
                if k == "EMG":
                    b.addSignal(x) if c == -1 else b.addSignal(x, channel=c)
                elif k in ("Data3D", "Force"):
                    b.add_track(x)
                elif k in ("FPCal", "FPData"):
                    b.add_platform(x) if c == -1 else b.add_platform(x, c + self.chan_base)
                elif k == "Events":
                    b.events.append(x)
                else:
                    b.channels.append(x)
        elif op == "remove":
            by = lab["by"]
            items = self.items_of(b)
            o["by"] = by
            o["pos"] = lab["pos"]
            if by == "label":
                o["key"] = lab["key"]
                text = self.labels[lab["key"]]
                fn = lambda: b.removeSignal(text)  # noqa: E731
            elif by == "index":
                o["key"] = lab["key"]
                fn = lambda: b.remove_platform(lab["key"])  # noqa: E731
            else:
                # (decided by the number of changes made to THIS block since its construction, so that
                # the solo replay of the block's own history makes the same decision)
                if self.nops.get(i, 0) % 5 == 0:
                    target = self.new_item(1)      # an item the block does not hold: nothing may change
                else:
                    target = items[lab["pos"] - 1] if 0 < lab["pos"] <= len(items) else self.new_item(1)
                o["key"] = self.ident(target)
                if self.kind in ("Optical", "Events"):
                    # (by identity: list.remove would take the first EQUAL element, and two events
                    # without values are equal)
                    def fn():
                        lst = b.channels if self.kind == "Optical" else b.events
                        k = next((n for n, x in enumerate(lst) if x is target), None)
                        if k is None:
                            raise ValueError("not in list")
                        del lst[k]
                else:
                    fn = lambda: b.remove_platform(target)  # noqa: E731
        elif op == "assign":
            xs = [self.new_item(l, g, inst=i) for l, g in lab["pat"]]
            cs = lab["cs"]
            o["xs"] = [dict(id=self.ident(x), label=l, good=g, val=self.content_id(x) if g else 0) for x, (l, g) in zip(xs, lab["pat"])]
            o["cs"] = cs
            k = self.kind
            as_list = self.tagc % 3 != 0
            if as_list:
                self.handed[i] = xs

            def fn():
                if k in ("Data3D", "Force"):
                    b.tracks = xs if as_list else iter(xs)
                elif k == "FPCal":
                    b.platforms = list(zip(cs, xs)) if as_list else zip(cs, xs)   # any iterable of pairs
                else:
                    b.platforms = xs
        elif op == "bulk_add":
            xs = [self.new_item(l, inst=i) for l in lab["labels"]]
            cs = lab["cs"]
            o["xs"] = [dict(id=self.ident(x), label=l, good=True, val=self.content_id(x)) for x, l in zip(xs, lab["labels"])]
            o["cs"] = cs
            self.handed[i] = xs
            fn = lambda: b.add_platforms(xs, cs if cs else None)  # noqa: E731
        elif op == "bulk_remove":
            ks = lab["ks"]
            o["ks"] = ks
            fn = lambda: b.remove_platforms(list(ks))  # noqa: E731
        elif op == "lookup":
            what, key = lab["what"], lab["key"]
            o.update(what=what, key=key)

            def fn():
                if what == "len":
                    val.append(len(b))
                elif what == "iter":
                    ids = [self.ident(x) for x in b]
                    # iterations that overlap in time are independent of each other
                    nested = [(self.ident(x), self.ident(y)) for x in b for y in b]
                    zipped = [(self.ident(x), self.ident(y)) for x, y in zip(b, b)]
                    again = [self.ident(x) for x in b]
                    if (nested != [(p, q) for p in ids for q in ids] or zipped != [(p, p) for p in ids] or again != ids):
                        ids = ids + [-7]
                    val.extend(ids)
                elif what == "index":
                    val.append(self.ident(b[key]))
                elif what == "label":
                    val.append(self.ident(b[fresh_str(self.labels[key])]))
                elif what == "contains":
                    ans = 1 if fresh_str(self.labels[key]) in b else 0
                    # membership of item OBJECTS is coherent with iteration: what iteration yields is
                    # contained; an item with other content and a label no item carries is not
                    own = all((x in b) for x in list(b))
                    stranger = self.new_item(9) if 9 in self.labels else None
                    if not own or (stranger is not None and stranger in b):
                        ans = -7
                    val.append(ans)
                elif what == "badkey":
                    self.tagc += 1
                    if self.tagc % 3 == 0:
                        # membership with a key that is neither a label nor an item
                        keys = [5, None, 1.5, b"a", (0,)]
                        keys[self.tagc % len(keys)] in b
                    else:
                        keys = [1.5, None, (0,), b"", slice(0, 2)]
                        items = self.items_of(b)
                        if items:
                            keys.append(items[0])      # an item object is not a key either
                        b[keys[self.tagc % len(keys)]]
        elif op == "edit":
            pos = lab["pos"]
            o["pos"] = pos
            items = self.items_of(b)
            if pos > len(items):
                return None
            it = items[pos - 1]
            self.tagc += 1
            newv = float(7000 + self.tagc)
            k = self.kind

            def fn():
                if k == "EMG":
                    it.data[0] = newv
                elif k == "Data3D":
                    if self.tagc % 3 == 1:
                        it.data[0, 0] = newv
                    elif self.tagc % 3 == 2:
                        it.Y[0] = newv              # through the view the coordinate getter hands out
                    else:
                        it.X = np.full(len(it.data), newv, dtype="<f4")
                elif k == "Force":
                    it.force[0, 0] = newv
                elif k == "FPData":
                    it.torque[0] = newv
                elif k == "Events":
                    it.values[0] = newv
                elif k == "FPCal":
                    if self.tagc % 2 and it.position.flags.writeable:
                        it.position[0, 0] = newv
                    else:
                        it.size = np.array([newv, 1.0], dtype="<f4")
                elif k == "Optical":
                    vp_ = it.camera_viewport
                    if self.tagc % 2 and getattr(vp_.origin, "flags", None) is not None and vp_.origin.flags.writeable:
                        vp_.origin[0] = int(newv)
                    else:
                        vp_.origin = np.array([int(newv), 1], dtype="<i4")
            if self.nf == 0 and k in ("EMG", "Data3D", "Force", "FPData"):
                return None
            if k == "Events" and len(it.values) == 0:
                return None
        elif op == "poke":
            lst = self.handed.get(i)
            if not isinstance(lst, list):
                return None

            def fn():
                lst.append(self.new_item(1))
                if len(lst) > 1:
                    del lst[0]
        elif op == "assign_self":
            self.tagc += 1
            form = self.tagc % 3

            def fn():
                if self.kind == "FPCal":
                    if form == 0:
                        b.platforms = b.platforms
                    elif form == 1:
                        b.platforms = ((c, p) for c, p in b)
                    else:
                        b.platforms = iter(list(b.platforms))
                elif form == 0:
                    b.tracks = b.tracks
                elif form == 1:
                    b.tracks = (t for t in b.tracks)
                else:
                    b.tracks = iter(list(b))
        elif op == "assign_from":
            j = lab["j"]
            o["j"] = j
            self.share_ok = True
            src = self.inst[j]
            if src is None:
                return None
            # tracks of a block with another frame count are wrong-length items for this one
            o["compat"] = bool(self.frames_of(i) == self.frames_of(j) or not self.items_of(src))

            form = self.nops.get(i, 0) % 2

            def fn():
                # the list the getter hands out, or the block itself (iterating a block yields its tracks)
                b.tracks = src.tracks if form == 0 else src
        elif op == "aux" and self.kind == "Unused":
            def fn():
                from datetime import timedelta
                b.creation_date = b.creation_date + timedelta(days=1)
        elif op == "aux":
            def fn():
                pair = (self.tagc % 5, 7)
                links = getattr(b, "links", None)
                if links is None:
                    b.links = [pair]
                elif isinstance(links, list):
                    links.append(pair)
                else:
                    from basictdf.tdfData3D import LinkType
                    b.links = np.append(links, np.array([pair], dtype=LinkType.btype))
        elif op == "encode":
            def fn():
                raw = self.encode_bytes(b)
                if self.kind in CHAN_KINDS:
                    dec = type(b)._build(io.BytesIO(raw), b.format.value)
                    h = Harness(self.kind, 0)
                    h.labels = self.labels
                    h.chan_base = self.chan_base
                    ch = self.chans_of(b) if self.kind == "EMG" else h.chans_of(dec)
                    labs = [h.label_id(x) for x in h.items_of(dec)]
                    for c, l in zip(ch, labs):
                        val.extend([c, l])
                    if len(ch) != len(labs):
                        val.append(-1)
        else:
            raise common.Machinery(f"unknown op {op}")
        o["share_ok"] = self.share_ok
        r = dict(ok=True, exc=[], val=val)
        try:
            fn()
        except Exception as x:  # noqa: BLE001
            r = dict(ok=False, exc=[c.__name__ for c in type(x).__mro__], val=[])
        return dict(o=o, r=r, w=self.world())


# ---------------------------------------------------------------------- labels
def _int(s):
    return int(s)


def _ints(txt):
    return [int(x) for x in re.findall(r"-?\d+", txt)]


def parse_label(lab):
    """TLC action label (instantiated) -> abstract call"""
    if lab.startswith("Begin"):
        return None
    m = re.match(r"(\w+)\((.*)\)$", lab, re.S)
    if not m:
        raise common.Machinery(f"unparsed label {lab!r}")
    name, args = m.group(1), m.group(2)
    i = int(re.match(r"(\d+)", args).group(1))
    rest = args[args.index(",") + 1:] if "," in args else ""
    if name == "Construct":
        return dict(op="construct", i=i, labels=_ints(rest))
    if name == "Decode":
        return dict(op="decode", i=i, j=_ints(rest)[0])
    if name == "Add":
        l, g, c = rest.split(",")
        return dict(op="add", i=i, label=int(l), good=g.strip() == "TRUE", c=int(c))
    if name == "RemoveLabel":
        return dict(op="remove", i=i, by="label", key=_ints(rest)[0], pos=0)
    if name == "RemoveIndex":
        return dict(op="remove", i=i, by="index", key=_ints(rest)[0], pos=0)
    if name == "RemoveItem":
        return dict(op="remove", i=i, by="item", key=0, pos=_ints(rest)[0])
    if name == "Assign":
        m2 = re.match(r"<<(.*)>>,<<(.*?)>>$", rest, re.S)
        pat = [(int(l), g == "TRUE") for l, g in re.findall(r"<<(-?\d+), (TRUE|FALSE)>>", m2.group(1))]
        return dict(op="assign", i=i, pat=pat, cs=_ints(m2.group(2)))
    if name == "BulkAdd":
        m2 = re.match(r"<<(.*?)>>,<<(.*?)>>$", rest, re.S)
        return dict(op="bulk_add", i=i, labels=_ints(m2.group(1)), cs=_ints(m2.group(2)))
    if name == "BulkRemove":
        return dict(op="bulk_remove", i=i, ks=_ints(rest))
    if name == "Lookup":
        m2 = re.match(r'"(\w+)",(-?\d+)$', rest.strip())
        return dict(op="lookup", i=i, what=m2.group(1), key=int(m2.group(2)))
    if name == "Encode":
        return dict(op="encode", i=i)
    if name == "AuxEdit":
        return dict(op="aux", i=i)
    if name == "EditItem":
        return dict(op="edit", i=i, pos=_ints(rest)[0])
    if name == "Poke":
        return dict(op="poke", i=i)
    if name == "AssignSelf":
        return dict(op="assign_self", i=i)
    if name == "AssignFrom":
        return dict(op="assign_from", i=i, j=_ints(rest)[0])
    raise common.Machinery(f"unparsed label {lab!r}")


def cfg_of(kind):
    return "MC_obj_" + kind.replace("@", "") + ".cfg"


def graph(kind):
    key = common.spec_hash("TdfObjectsCore.tla", "TdfObjects.tla", cfg_of(kind))
    cache = common.build_path(f"graph-obj-{kind.replace('@', '')}-{key}.pickle")
    if not os.path.exists(cache):
        dot = os.path.join(common.scratch(), f"obj-{kind.replace('@', '')}.dot")
        res = tlc.run("TdfObjects.tla", cfg_of(kind), workers=16, dump_dot=dot, timeout=3000)
        if res.violation:
            raise common.Machinery(f"object model {kind} violates {res.violation}\n{res.out[-2000:]}")
        init, adj = tours.parse_dot(dot)
        os.unlink(dot)
        with open(cache + f".{os.getpid()}.tmp", "wb") as fh:
            pickle.dump(dict(init=init, adj=dict(adj), mc=res.summary()), fh)
        os.replace(cache + f".{os.getpid()}.tmp", cache)
    with open(cache, "rb") as fh:
        g = pickle.load(fh)
    return g["init"], g["adj"], g["mc"]


def directed(init, adj, rng, n=6):
    """model paths of the shape: two constructors given the same non-empty item list, then edits of
    either block (the constructors must each own their container)"""
    out = []
    for _ in range(n * 4):
        if len(out) >= n:
            break
        cur, labs, want = init, [], None
        stage = 0
        for _step in range(14):
            outs = adj.get(cur, [])
            if stage == 0:
                cand = [(d, l) for d, l in outs if l == "Begin" or (l.startswith("Construct(1,<<") and not l.endswith("<<>>)"))]
                cand = [c for c in cand if c[1] != "Begin"] or cand
            elif stage == 1:
                cand = [(d, l) for d, l in outs if l == "Construct(2," + want]
            else:
                cand = [(d, l) for d, l in outs if l.startswith(("Add(", "Remove", "BulkAdd(", "BulkRemove(", "Assign(", "Encode("))]
            if not cand:
                break
            d, l = rng.choice(cand)
            labs.append(l)
            cur = d
            if stage == 0 and l.startswith("Construct(1,"):
                want = l[len("Construct(1,"):]
                stage = 1
            elif stage == 1:
                stage = 2
        if stage == 2 and len(labs) > 4:
            out.append(labs)
    return out


def solo_replays(kind, calls, seed, h):
    """for every block that was built by a constructor and since then only changed by calls on
    itself: the same calls again on a fresh harness with nothing else going on.  -> trace events"""
    out = []
    for i in range(1, NI + 1):
        own, pure = None, False
        for c in calls:
            if c["op"] == "construct" and c["i"] == i:
                own, pure = [c], True
            elif c["op"] == "decode" and c.get("j") == i:
                pure = False
            elif c["i"] == i and own is not None:
                if c["op"] in ("assign_from", "poke"):
                    pure = False
                elif c["op"] not in ("lookup", "encode", "decode"):
                    own.append(c)
        if not pure or h.inst[i] is None or h.share_ok:
            continue
        solo = Harness(kind, seed)
        solo.work = h.work
        try:
            for c in own:
                if c["op"] != "construct" and solo.inst[i] is None:
                    break
                if solo.nf == 0 and c["op"] == "aux" and kind in ("EMG", "Data3D", "Force", "FPData"):
                    continue    # (skipped in the main run as well)
                solo.run(c)
            a = h.world()[i - 1]
            b = solo.world()[i - 1]
            same = (a["ex"] == b["ex"] and [x["label"] for x in a["items"]] == [x["label"] for x in b["items"]]
                    and a["chans"] == b["chans"] and a["aux"] == b["aux"])
        except Exception:  # noqa: BLE001
            continue
        w = h.world()
        out.append(dict(o=dict(op="solo", i=i, same=bool(same), share_ok=True), r=dict(ok=True, exc=[], val=[]), w=w))
    return out


def directed_assign_from(init, adj, rng, n=6):
    """model paths: two blocks, the (still empty) track list of one assigned to the other, then
    tracks added to either - a list that two blocks share lets a track of the wrong length in"""
    out = []
    for _ in range(n * 6):
        if len(out) >= n:
            break
        cur, labs, stage = init, [], 0
        for _step in range(12):
            outs = adj.get(cur, [])
            want = {0: ("Begin", "Construct(1,<<>>)"), 1: ("Construct(2,<<>>)",), 2: ("AssignFrom(2,1)", "AssignFrom(1,2)")}.get(stage)
            if want:
                cand = [(d, l) for d, l in outs if l in want]
            else:
                cand = [(d, l) for d, l in outs if l.startswith("Add(") and ",TRUE," in l] or \
                       [(d, l) for d, l in outs if l.startswith(("Add(", "Assign("))]
            if not cand:
                break
            d, l = rng.choice(cand)
            labs.append(l)
            cur = d
            if stage == 0 and l.startswith("Construct(1"):
                stage = 1
            elif stage in (1, 2) and l != "Begin":
                stage += 1
        if stage >= 3 and len(labs) >= 6:
            out.append(labs)
    return out


def directed_lookup(init, adj, rng, n=6):
    """model paths: a block, its decoded copy (equal content, other objects), then lookups by label in
    both, in both orders - a lookup must return the item of the block it was made on"""
    out = []
    for _ in range(n * 6):
        if len(out) >= n:
            break
        cur, labs, stage = init, [], 0
        order = rng.choice([(1, 2, 1), (2, 1, 2), (1, 2, 2)])
        for _step in range(12):
            outs = adj.get(cur, [])
            if stage == 0:
                cand = [(d, l) for d, l in outs if l in ("Begin", "Construct(1,<<>>)")]
            elif stage == 1:
                cand = [(d, l) for d, l in outs if l.startswith("Add(1,1,TRUE")]
            elif stage == 2:
                cand = [(d, l) for d, l in outs if l.replace(" ", "") == "Decode(1,2)"]
            else:
                who = order[stage - 3]
                cand = [(d, l) for d, l in outs if l.replace(" ", "") == f'Lookup({who},"label",1)']
            if not cand:
                break
            d, l = rng.choice(cand)
            labs.append(l)
            cur = d
            if l != "Begin":
                stage += 1
            if stage == 6:
                break
        if stage == 6:
            out.append(labs)
    return out


def run_tour(kind, labs, seed, share_ctor=False):
    model = kind
    kind = kind.split("@")[0]
    h = Harness(kind, seed)
    h.share_ctor = share_ctor
    h.work = common.scratch()
    init = h.world()
    steps = []
    done = []      # the calls that were really made
    for lab in labs:
        c = parse_label(lab)
        if c is None:
            continue
        if c["op"] != "construct" and h.inst[c["i"]] is None:
            break  # the real run left the model's path (an earlier construct failed): stop this tour
        if h.nf == 0 and c["op"] in ("encode", "decode", "aux") and kind in ("EMG", "Data3D", "Force", "FPData"):
            continue  # tracks without frames cannot be encoded; such histories only exercise the editing API
        try:
            ev = h.run(c)
        except common.Machinery:
            raise
        except Exception as x:  # noqa: BLE001
            # the library raised while the harness was building VALID items or blocks for this call
            # (outside the call that is judged): a verdict, not a machinery failure
            steps.append(dict(o=dict(op="setup_failed", i=c["i"], share_ok=True, exc=type(x).__name__), r=dict(ok=False, exc=[type(x).__name__], val=[]), w=h.world()))
            break
        done.append(c)              # (also when it was skipped: the solo replay must skip it the same way)
        if ev is not None:          # (a call that makes no sense on this concrete block is skipped)
            steps.append(ev)
    steps += solo_replays(kind, done, seed, h)
    return dict(kind="EMG0" if (kind == "EMG" and h.nf == 0) else kind, init=init, steps=steps,
                meta=dict(labels=labs, seed=seed, kind=model, share_ctor=share_ctor))


def validate(traces):
    """all traces judged by TLC, in chunks of 400"""
    from .container import _Merged
    if len(traces) <= 400:
        return validate_chunk(traces)
    merged, verdict = _Merged(), {}
    for a in range(0, len(traces), 400):
        res, v = validate_chunk(traces[a:a + 400])
        merged.add(res)
        for tid, cl in v.items():
            verdict[a + tid] = cl
    return merged, verdict


def validate_chunk(traces):
    tf = os.path.join(common.scratch(), f"otraces-{time.time_ns()}.json")
    with open(tf, "w") as fh:
        json.dump([{k: v for k, v in t.items() if k != "meta"} for t in traces], fh)
    res = tlc.run("TdfObjectsTrace.tla", "Trace_objects.cfg", workers=8, env={"TRACE_FILE": tf}, check=False)
    os.unlink(tf)
    if res.error or res.violation:
        raise common.Machinery(f"object trace validation failed to run: {res.error or res.violation}\n{res.out[-2500:]}")
    verdict = {}
    for line in res.out.splitlines():
        if line.startswith('"END '):
            obj = json.loads(json.loads(line)[4:])
            verdict[obj["tid"]] = sorted(obj["cl"])
    if len(verdict) != len(traces):
        raise common.Machinery(f"verdicts for {len(verdict)} of {len(traces)} object traces\n{res.out[-1500:]}")
    return res, verdict


def select_for(prop):
    def sel(s, d, lab):
        if prop == "C18":
            return lab.startswith(("Lookup", "Add", "Remove", "Construct", "Decode"))
        if prop == "C16":
            return lab.startswith(("Add", "Assign", "Construct", "Decode"))
        if prop == "C20":
            # lookups by label too: what a lookup returns must be an item of THIS block
            return not lab.startswith("Lookup") or '"label"' in lab
        return not lab.startswith("Lookup")
    return sel


def kind_of(model):
    return model.split("@")[0]


def check(prop, tier, seed, replay=None):
    run = common.Run(prop, tier, seed)
    run.assumptions += ["two live instances of one kind per history; item objects are never shared between blocks by the driver",
                        "items are observed through iteration / indexing / platforms / tracks, channel maps through the public "
                        "pair iteration (EMG: through the encoded bytes, it has no public reader)"]
    if replay:
        run.is_replay = True
        rp = json.load(open(replay))["replay"]
        tr = run_tour(rp["kind"], rp["labels"], rp["seed"], rp.get("share_ctor", False))
        res, verdict = validate([tr])
        run.add_tlc("TRACE replay", res, exhaustive=False)
        trs = [tr]
    else:
        trs = []
        budget = {"C15": 1500, "C18": 8000, "C02": 1200, "C20": 900}.get(prop, 2500) if tier == "quick" else None
        rng = random.Random(seed + 5)
        graphs = {}
        for kind in KINDS_OF[prop]:
            init, adj, mc = graph(kind)
            res = tlc.run("TdfObjects.tla", cfg_of(kind), workers=16, coverage=False, timeout=3000)
            if res.violation:
                raise common.Machinery(f"object model {kind} violates {res.violation}")
            run.add_tlc(f"MC MC_obj_{kind}.cfg", res)
            if tier == "thorough" and kind == "EMG":
                res3 = tlc.run("TdfObjects.tla", "MC_obj_EMG3.cfg", workers=16, coverage=False, timeout=3000)
                if res3.violation:
                    raise common.Machinery(f"object model EMG3 violates {res3.violation}")
                run.add_tlc("MC MC_obj_EMG3.cfg (three items, model checking only)", res3)
            st = tours.stats(adj)
            graphs[kind] = dict(nodes=st["nodes"], edges=st["edges"], exhaustive_tour=budget is None and st["edges"] < 400000)
            big = st["edges"] > 400000
            gens = [tours.tours(init, adj, rng, max_len=50, select=select_for(prop),
                                max_edges=budget if budget else (150000 if big else None))]
            if prop == "C15" and budget:
                # automatic channels are where uniqueness is at stake: give them their own budget
                gens.append(tours.tours(init, adj, rng, max_len=50, max_edges=budget,
                                        select=lambda s, d, lab: (lab.startswith("Add(") and lab.endswith(",-1)"))
                                        or (lab.startswith("BulkAdd(") and lab.endswith("<<>>)"))))
            if prop == "C15" and budget:
                # bulk operations with explicit channels (duplicates inside one batch, taken channels)
                gens.append(tours.tours(init, adj, rng, max_len=50, max_edges=budget // 3,
                                        select=lambda s, d, lab: lab.startswith(("BulkAdd(", "Assign(", "BulkRemove("))
                                        and not lab.endswith("<<>>)")))
            k = 0
            for g in gens:
                for labs in g:
                    k += 1
                    trs.append(run_tour(kind, labs, seed * 7 + k))
            if prop in ("C20", "C18") and kind_of(kind) in ("EMG", "Data3D", "Force", "Events") and "@" not in kind:
                for labs in directed_lookup(init, adj, rng):
                    k += 1
                    trs.append(run_tour(kind, labs, seed * 7 + k))
            if prop in ("C20", "C16") and kind in ("Data3D", "Force"):
                for labs in directed_assign_from(init, adj, rng):
                    k += 1
                    trs.append(run_tour(kind, labs, 4 + 8 * k + seed % 4))     # seeds with different frame counts per block
            if prop in ("C20", "C15") and kind_of(kind) in ("FPCal", "Optical"):
                for labs in directed(init, adj, rng):
                    k += 1
                    trs.append(run_tour(kind, labs, seed * 7 + k, share_ctor=True))
        run.cov["graphs"] = graphs
        res, verdict = validate(trs)
        run.cov["tlc_runs"].append(dict(name="TRACE objects", traces=len(trs), **res.summary()))
    run.cov["traces_validated_against_impl"] = len(trs)
    run.cov["evaluations"] = sum(len(t["steps"]) for t in trs)
    run.cov["distinct_nontrivial"] = len({json.dumps(t["meta"]["labels"]) for t in trs})
    run.cov["rule"] = ("transition tours over the labelled state graph of TdfObjects (one model per kind of block, two "
                       "instances) executed on real objects; every step judged by TLC; distinct = distinct label sequences")
    for t in trs[:3]:
        run.sample(dict(kind=t["kind"], labels=t["meta"]["labels"][:6], first=[dict(o=e["o"], r=e["r"]) for e in t["steps"][:3]]))
    others = {}
    for tid, cl in verdict.items():
        mine = [c for c in cl if c[1].startswith((prop + ":", "ANY:"))]
        for c in cl:
            if not c[1].startswith(prop + ":"):
                others[c[1]] = others.get(c[1], 0) + 1
        if mine and len(run.violations) < 5:
            tr = trs[tid - 1]
            ev = tr["steps"][mine[0][0] - 1]
            before = tr["steps"][mine[0][0] - 2]["w"] if mine[0][0] > 1 else tr["init"]
            run.violation(f"{mine[0][1]} at step {mine[0][0]} on {tr['kind']}: call {json.dumps(ev['o'])} -> {json.dumps(ev['r'])}; "
                          f"before {json.dumps(before)} after {json.dumps(ev['w'])}",
                          dict(kind=tr["meta"]["kind"], labels=tr["meta"]["labels"], seed=tr["meta"]["seed"],
                               share_ctor=tr["meta"].get("share_ctor", False), clauses=cl))
    if others:
        run.cov["clauses_of_other_properties"] = others
    return run.finish()
