"""Crash points of add / remove / replace (spec/TdfTorn.tla): call sequences of the model (tours of
its state graph) are executed on the real library through a recording file handle; the pieces the
library hands to the handle are joined the way the buffered handle joins them, and the file after
every prefix of them - what a crash would leave behind - is rebuilt from the bytes before the
call.  TLC (spec/TdfTornTrace.tla) predicts the program of effects and every crash-point file;
the predicted byte layouts are materialised here and compared with the rebuilt bytes.

No hook in the library: `pathlib.Path.open` is wrapped, for the one path under test, while a call
is recorded.  Documented behaviour beyond the listed properties: all clauses are `conf:`."""
import contextlib
import json
import os
import pathlib
import pickle
import random
import re
import time

from . import common, refio, tlc, tours, session
from .handles import HWorld, REAL_TYPE, N
from basictdf import Tdf
from basictdf.tdfBlock import BlockType

SPEC_FILES = ["TdfExtents.tla", "TdfFile.tla", "TdfHandlesCore.tla", "TdfTornCore.tla", "TdfTorn.tla", "MC_torn.cfg"]   # MC_torn_alt / _sound / _readable: run directly
TE = refio.HDR + refio.ENT * N


class RecFile:
    """the library's handle, with every write / truncate noted as (kind, position, bytes)"""

    def __init__(self, real, log):
        self._f = real
        self._log = log

    def write(self, data):
        pos = self._f.tell()
        n = self._f.write(data)
        if len(data):
            self._log.append(("w", pos, bytes(data)))
        return n

    def seek(self, *a):
        self._log.append(("s", 0, b""))
        return self._f.seek(*a)

    def truncate(self, size=None):
        at = self._f.tell() if size is None else size
        self._log.append(("t", at, b""))
        return self._f.truncate(size)

    def __getattr__(self, name):
        return getattr(self._f, name)

    def __enter__(self):
        return self

    def __exit__(self, *a):
        return self._f.__exit__(*a)


@contextlib.contextmanager
def recording(path, log):
    real_open = pathlib.Path.open
    target = os.path.realpath(path)

    def patched(self, mode="r", *a, **k):
        fh = real_open(self, mode, *a, **k)
        if "+" in mode and os.path.realpath(str(self)) == target:
            return RecFile(fh, log)
        return fh
    pathlib.Path.open = patched
    try:
        yield
    finally:
        pathlib.Path.open = real_open


def pieces(log):
    """the writes between two seeks joined: the buffered handle hands them to the file as one piece
    when the next seek (or truncate, flush, close) comes - checked with strace: one write() per table
    slot, one per block"""
    out, fresh = [], True
    for kind, pos, data in log:
        if kind == "s":
            fresh = True
        elif kind == "w" and not fresh and out and out[-1][0] == "w" and out[-1][1] + len(out[-1][2]) == pos:
            out[-1] = ("w", out[-1][1], out[-1][2] + data)
        else:
            out.append((kind, pos, data))
            fresh = False
    return out


def apply_piece(raw, piece):
    kind, pos, data = piece
    raw = bytearray(raw)
    if kind == "w":
        if pos > len(raw):
            raw += b"\0" * (pos - len(raw))
        raw[pos:pos + len(data)] = data
    else:
        if pos <= len(raw):
            del raw[pos:]
        else:
            raw += b"\0" * (pos - len(raw))
    return bytes(raw)


def classify(ps, op):
    """pieces -> effects as the specification names them: [kind, a, b]"""
    effs = []
    cut_seen = False
    for kind, pos, data in ps:
        if kind == "t":
            effs.append(["cut", session.clamp(pos), 0])
            cut_seen = True
        elif pos < TE and (pos - refio.HDR) % refio.ENT == 0 and len(data) == refio.ENT:
            effs.append(["ent", (pos - refio.HDR) // refio.ENT + 1, 0])
        elif pos < TE:
            effs.append(["odd", session.clamp(pos), len(data)])          # a table write that is not one whole slot
        elif op == "remove" or (op == "replace" and not cut_seen):
            effs.append(["mov", session.clamp(pos), len(data)])
        else:
            effs.append(["dat", session.clamp(pos), len(data)])
    return effs


def graph():
    key = common.spec_hash(*SPEC_FILES)
    cache = common.build_path(f"graph-torn-{key}.pickle")
    if not os.path.exists(cache):
        dot = os.path.join(common.scratch(), "torn.dot")
        res = tlc.run("TdfTorn.tla", "MC_torn.cfg", workers=4, dump_dot=dot, timeout=1200)
        if res.violation:
            raise common.Machinery(f"TdfTorn violates {res.violation}\n{res.out[-2000:]}")
        init, adj = tours.parse_dot(dot)
        os.unlink(dot)
        with open(cache + f".{os.getpid()}.tmp", "wb") as fh:
            pickle.dump(dict(init=init, adj=dict(adj), mc=res.summary()), fh)
        os.replace(cache + f".{os.getpid()}.tmp", cache)
    with open(cache, "rb") as fh:
        g = pickle.load(fh)
    return g["init"], g["adj"], g["mc"]


def counterexample(cfg, inv):
    """TLC's shortest behaviour that refutes `inv` -> labels"""
    res = tlc.run("TdfTorn.tla", cfg, workers=1, check=False, timeout=600)
    labs = []
    for line in res.out.splitlines():
        m = re.match(r"State \d+: <(\w+(\([^)]*\))?) line", line)
        if m:
            labs.append(m.group(1).replace(" ", ""))
    if not labs or inv not in (res.violation or ""):
        raise common.Machinery(f"no {inv} counterexample: {res.violation} {res.out[-800:]}")
    return res, labs


def parse_label(lab):
    lab = lab.replace(" ", "")
    m = re.match(r"Setup\((\d+)\)", lab)
    if m:
        return dict(op="setup", k=int(m.group(1)))
    m = re.match(r"BeginAdd\((\d+)\)", lab)
    if m:
        return dict(op="add", h=1, u=int(m.group(1)))
    m = re.match(r"BeginRep\((\d+)\)", lab)
    if m:
        return dict(op="replace", h=1, u=int(m.group(1)))
    m = re.match(r"BeginRem\((\d+)\)", lab)
    if m:
        return dict(op="remove", h=1, t=int(m.group(1)))
    if lab.startswith(("Eff", "TearDat")):
        return dict(op="eff")
    raise common.Machinery(f"unparsed label {lab!r}")


def rows_of(world, raw):
    p = refio.parse(raw)
    return [[session.clamp(e["type"]), session.clamp(e["format"]), session.clamp(e["offset"]), session.clamp(e["size"]),
             world.comments.get(e["comment"], -1), e["cdate"], e["mdate"]] for e in p.table]


def run_tour(labs, root, seed):
    calls = [parse_label(x) for x in labs]
    if not calls or calls[0]["op"] != "setup":
        raise common.Machinery(f"tour without Setup: {labs[:2]}")
    os.makedirs(root, exist_ok=True)
    path = os.path.join(root, f"t{seed}.tdf")
    w = HWorld(path, seed)
    init = w.build_initial(2, swap=True) if calls[0]["k"] == 3 else w.build_initial(calls[0]["k"])
    steps, crash_raws = [], []
    try:
        log = []
        with recording(path, log):
            w.execute(dict(op="enter", h=1, w=True))
            for c in calls[1:]:
                if c["op"] == "eff":
                    continue
                before = open(path, "rb").read()
                del log[:]
                ev, after = w.execute(c)
                ps = pieces(log)
                effs = classify(ps, c["op"])
                raws, cur = [], before
                for p in ps:
                    cur = apply_piece(cur, p)
                    raws.append(cur)
                half = dict(at=0, j=0, flen=0)
                half_raw = None
                for k, (e, p) in enumerate(zip(effs, ps)):
                    if e[0] == "dat" and len(p[2]) > 1:
                        j = len(p[2]) // 2
                        half_raw = apply_piece(raws[k - 1] if k else before, ("w", p[1], p[2][:j]))
                        half = dict(at=k + 1, j=j, flen=min(len(half_raw), session.LIM))
                ev.pop("mems", None)
                ev.update(effs=effs, torn=[dict(table=rows_of(w, r), flen=min(len(r), session.LIM)) for r in raws], half=half,
                          complete=bool(raws and raws[-1] == after) or (not raws and before == after))
                steps.append(ev)
                crash_raws.append((raws, half_raw))
    finally:
        w.close_all()
        if os.path.exists(path):
            os.unlink(path)
    return dict(init=init, steps=steps, meta=dict(labels=labs, seed=seed)), w, crash_raws


def validate(items):
    tf = os.path.join(common.scratch(), f"ttraces-{time.time_ns()}.json")
    with open(tf, "w") as fh:
        json.dump([{k: v for k, v in t.items() if k != "meta"} for t, _, _ in items], fh)
    res = tlc.run("TdfTornTrace.tla", "Trace_torn.cfg", workers=8, env={"TRACE_FILE": tf}, check=False)
    os.unlink(tf)
    if res.error or res.violation:
        raise common.Machinery(f"torn trace validation failed to run: {res.error or res.violation}\n{res.out[-2000:]}")
    verdict, points = {}, 0
    for line in res.out.splitlines():
        if line.startswith('"END '):
            obj = json.loads(json.loads(line)[4:])
            tid = obj["tid"]
            cl = [tuple(c) for c in obj["cl"]]
            tr, w, crash_raws = items[tid - 1]
            for k, lay in enumerate(obj["lay"]):
                if any(c[0] <= k + 1 for c in cl):
                    break
                raws, half_raw = crash_raws[k]
                if not tr["steps"][k]["complete"]:
                    # the recorded pieces, applied to the bytes before the call, must give the bytes after it
                    cl.append((k + 1, "conf:t_recording_incomplete"))
                    break
                bad = False
                for j, layout in enumerate(lay["crash"]):
                    points += 1
                    try:
                        want = w.materialise(layout)
                    except Exception:  # noqa: BLE001
                        want = None
                    if want != raws[j][TE:]:
                        bad = True
                if half_raw is not None and lay["half"]:
                    points += 1
                    try:
                        want = w.materialise(lay["half"])
                    except Exception:  # noqa: BLE001
                        want = None
                    if want != half_raw[TE:]:
                        bad = True
                if bad:
                    cl.append((k + 1, "conf:t_bytes"))
                    break
            verdict[tid] = sorted(cl)
    if len(verdict) != len(items):
        raise common.Machinery(f"verdicts for {len(verdict)} of {len(items)} torn traces\n{res.out[-1500:]}")
    return res, verdict, points


def campaign(run, seed, budget):
    """-> (traces, calls, differing); differences are notes (conf:*), never violations"""
    init, adj, mc = graph()
    rng = random.Random(seed + 31)
    root = os.path.join(common.scratch(), "torn")
    items, ces = [], {}
    for cfg, inv in (("MC_torn_sound.cfg", "TornSound"), ("MC_torn_readable.cfg", "TornRemReadable")):
        _, labs = counterexample(cfg, inv)
        ces[inv] = labs
        # the behaviour ends inside a call: the replay performs the whole call and looks at the crash
        # point the counterexample stops at (number of Eff steps after the last Begin)
        items.append(run_tour(labs, root, seed * 1000 + len(items)))
    for k, labs in enumerate(tours.tours(init, adj, rng, max_len=30, max_edges=budget,
                                         select=lambda s, d, lab: lab.startswith("Begin"))):
        items.append(run_tour(labs, root, seed * 1000 + 10 + k))
    res, verdict, points = validate(items)
    bad = {tid: cl for tid, cl in verdict.items() if cl}
    calls = sum(len(t["steps"]) for t, _, _ in items)
    # the two refuted statements, looked at on the real bytes of the crash point TLC names
    shown = {}
    for idx, (inv, labs) in enumerate(ces.items()):
        tr, w, crash_raws = items[idx]
        effs_done = 0
        for lab in reversed(labs):
            if lab.startswith("Eff"):
                effs_done += 1
            else:
                break
        raws, _ = crash_raws[-1]
        raw = raws[effs_done - 1]
        p = refio.parse(raw)
        live = [e for e in p.table if e["type"] != 0]
        if inv == "TornSound":
            shown[inv] = any(e["offset"] + e["size"] > len(raw) for e in live)
        else:
            # a block that is not being removed reads differently through the table of the crash point
            before_blocks = {}
            first = refio.parse(open_initial(tr, w))
            for e in first.table:
                if e["type"] != 0:
                    before_blocks[e["type"]] = open_initial(tr, w)[e["offset"]:e["offset"] + e["size"]]
            shown[inv] = any(before_blocks.get(e["type"]) is not None and raw[e["offset"]:e["offset"] + e["size"]] != before_blocks[e["type"]]
                             for e in live if e["type"] != REAL_TYPE[parse_label([x for x in labs if x.startswith("Begin")][-1])["t"]])
    run.cov["tlc_runs"].append(dict(name="MC MC_torn.cfg (crash points of add / remove / replace; beyond the listed properties)", **mc))
    alt = tlc.run("TdfTorn.tla", "MC_torn_alt.cfg", workers=2, timeout=600)
    run.cov["tlc_runs"].append(dict(name="MC MC_torn_alt.cfg (what-if: block bytes before the entry - every crash point of an add is then well-formed)",
                                    **alt.summary()))
    run.cov["tlc_runs"].append(dict(name="TRACE torn", traces=len(items), calls=calls, crash_points=points, **res.summary()))
    run.cov.setdefault("torn", {}).update(
        traces=len(items), calls=calls, crash_points_compared_bytewise=points,
        refuted_by_tlc=ces, refutation_reproduced_on_real_library=shown,
        what_if_bytes_before_entry_makes_add_crash_safe=not alt.violation and not alt.error,
        conformance_differences={str(t): [list(c) for c in cl][:3] for t, cl in list(bad.items())[:5]})
    if bad:
        run.cov["notes"].append(f"torn: {len(bad)} of {len(items)} histories differ from the TdfTorn prediction at some crash point (conf:*, no listed property)")
    return len(items), calls, bad


def open_initial(tr, w):
    """the initial file of a trace, rebuilt from its description (the real one is gone by now)"""
    slots = []
    for r in tr["init"]["table"]:
        slots.append(dict(type=r[0], format=r[1], offset=r[2], size=r[3], cdate=r[5], mdate=r[6], adate=r[6], comment=refio.DEFAULT_COMMENT))
    data = b"".join(w.payload[u][lo:hi] for u, lo, hi in tr["init"]["data"])
    return refio.build_file(N, slots, data, version=1, hdates=(0, 0, 0))
