"""C19: constructor shape checks.  TLC enumerates every (parameter, argument
descriptor) pair of spec/TdfCtor.tla with its verdict (accept / refuse / open);
the harness builds the real argument and calls the real constructor."""
import io
import json
import os

import numpy as np

from . import common, tlc
from basictdf.tdfCalibrationData import (BTSCameraData, CalibrationDataBlock, CalibrationDataBlockFormat,
                                         DistorsionModel, SeelabCameraData)
from basictdf.tdfData3D import Data3D
from basictdf.tdfEvents import Event, EventsDataType
from basictdf.tdfForce3D import ForceTorque3D, ForceTorqueTrack
from basictdf.tdfOpticalSystem import OpticalChannelData
from basictdf.tdfTypes import CameraViewPort


def vectors(maxrank, maxext):
    cfg = os.path.join(common.scratch(), "ctor.cfg")
    with open(cfg, "w") as fh:
        fh.write(f"SPECIFICATION Spec\nCONSTANTS\n  MaxRank = {maxrank}\n  MaxExt = {maxext}\nINVARIANT Consistent\n"
                 "INVARIANT OneShape\nCONSTRAINT Emit\nCHECK_DEADLOCK FALSE\n")
    res = tlc.run("TdfCtor.tla", cfg, workers=4, check=False)
    if res.violation or res.error:
        raise common.Machinery(f"TdfCtor: {res.violation or res.error}\n{res.out[-1500:]}")
    seen, out = set(), []
    for line in res.out.splitlines():
        if line.startswith('"CTOR '):
            v = json.loads(json.loads(line)[5:])
            key = json.dumps(v["q"], sort_keys=True)
            if key not in seen:
                seen.add(key)
                out.append(v)
    if len(out) != res.distinct:
        raise common.Machinery(f"{len(out)} ctor vectors for {res.distinct} states")
    return res, out


def nested(shape, kind):
    if not shape:
        return 0.0
    inner = [nested(shape[1:], kind) for _ in range(shape[0])]
    return tuple(inner) if kind == "tuple" else inner


def vp():
    return CameraViewPort(np.array([1, 2], "<i4"), np.array([3, 4], "<i4"))


def make_arg(a):
    k, shape = a["k"], a["shape"]
    if k.startswith("ndarray"):
        dt = {"f4": "<f4", "f8": "<f8", "i4": "<i4"}[k.split("_")[1]]
        return np.arange(int(np.prod(shape)) if shape else 1, dtype=dt).reshape(shape) if shape else np.array(1, dtype=dt)
    if k in ("list", "tuple"):
        return nested(shape, k)
    return {"none": None, "str": "ab", "int": 5, "float": 2.5, "viewport": vp()}[k]


def call_param(p, arg, p2=None, arg2=None):
    """construct the object with `arg` in the place of parameter p (and arg2 in the place of p2);
    returns (object, encoder or None)"""
    g = dict(volume=np.ones(3, "<f4"), rotationMatrix=np.eye(3, dtype="<f4"), translationVector=np.zeros(3, "<f4"))
    ctor, name = p.split("_", 1)
    name2 = p2.split("_", 1)[1] if p2 else None
    if name2 is not None:
        g[name2] = arg2
    if ctor == "Data3D":
        g[name] = arg
        o = Data3D(100, 2, g["volume"], g["rotationMatrix"], g["translationVector"])
        return o, o
    if ctor == "Force":
        g[name] = arg
        o = ForceTorque3D(100, 2, g["volume"], g["rotationMatrix"], g["translationVector"])
        return o, o
    if ctor == "Calib":
        g[name] = arg
        o = CalibrationDataBlock(DistorsionModel.noDistorsion, g.get("size", g["volume"]), g["rotationMatrix"],
                                 g["translationVector"], np.array([], "<i2"), [], CalibrationDataBlockFormat.Seelab1)
        return o, o
    if ctor == "Seelab":
        kw = dict(rotation_matrix=np.eye(3), translation_vector=np.zeros(3), focus=np.ones(2), optical_center=np.ones(2),
                  radial_distortion=np.zeros(2), decentering=np.zeros(2), thin_prism=np.zeros(2), view_port=vp())
        kw[name] = arg
        if name2 is not None:
            kw[name2] = arg2
        o = SeelabCameraData(**kw)
        return o, o
    if ctor == "BTS":
        kw = dict(rotation_matrix=np.eye(3), translation_vector=np.zeros(3), focus=np.ones(2), optical_center=np.ones(2),
                  x_distortion_coefficients=np.zeros(70), y_distortion_coefficients=np.zeros(70), view_port=vp())
        kw[name] = arg
        o = BTSCameraData(**kw)
        return o, o
    if ctor == "Optical":
        o = OpticalChannelData(1, "l", "t", "n", arg)
        return o, o
    if ctor == "ViewPort":
        o = CameraViewPort(arg, np.array([3, 4], "<i4")) if name == "origin" else CameraViewPort(np.array([1, 2], "<i4"), arg)
        return o, None
    raise ValueError(p)


def size_ok(obj, p):
    if isinstance(obj, CameraViewPort):
        return len(obj.write()) == 16
    s = io.BytesIO()
    obj._write(s)
    return len(s.getvalue()) == obj.nBytes


def evaluate(v):
    q, verdict = v["q"], v["verdict"]
    if verdict == "open":
        return None
    try:
        if q["t"] == "param":
            obj, _ = call_param(q["p"], make_arg(q["a"]))
        elif q["t"] == "pair":
            a1, a2 = (np.arange(int(np.prod(sh)) if sh else 1, dtype="<f4").reshape(sh) if sh else np.array(1, "<f4")
                      for sh in q["s"])
            obj, _ = call_param(q["p"], a1, q["p2"], a2)
        elif q["t"] == "coupled":
            arrs = [np.zeros(s, "<f4") if s else np.array(0.0, "<f4") for s in q["s"]]
            obj = ForceTorqueTrack("t", *arrs)
        else:
            k, n = q["v"]["k"], q["v"]["n"]
            z = [1.0] + [0.0] * (n - 1) if n else []
            vals = {"listz": list(z), "ndarray_f4z": np.array(z, "<f4"), "ndarray_i4z": np.array(z, "<i4"), "list": [1.0] * n, "tuple": (1.0,) * n, "ndarray_f4": np.ones(n, "<f4"), "ndarray_f8": np.ones(n, "<f8"),
                    "none": None, "int": 3, "float": 1.5, "ndarray0_f4": np.array(2.0, "<f4"), "ndarray0_f8": np.array(2.0),
                    "npscalar": np.float32(2.0)}[k]
            obj = Event("e", vals, EventsDataType.singleEvent if q["single"] else EventsDataType.eventSequence)
        accepted = True
    except Exception:  # noqa: BLE001
        accepted = False
        obj = None
    if verdict == "accept" and not accepted:
        return "C19:valid_argument_refused"
    if verdict == "refuse" and accepted:
        return "C19:invalid_argument_accepted"
    if accepted and q["t"] == "coupled" and q["s"][0][0] == 0:
        return None  # a track without frames: accepted, but not a block any property speaks about (frame count >= 1)
    if accepted:
        try:
            if not size_ok(obj, q.get("p")):
                return "C19:accepted_object_missized"
        except Exception as x:  # noqa: BLE001
            return f"C19:accepted_object_cannot_be_encoded ({type(x).__name__})"
    return None


def check(prop, tier, seed, replay=None):
    run = common.Run(prop, tier, seed)
    if replay:
        run.is_replay = True
        rp = json.load(open(replay))["replay"]
        bad = evaluate(rp["vector"])
        run.cov.update(evaluations=1, distinct_nontrivial=2)
        run.sample(rp["vector"])
        if bad:
            run.violation(bad, rp)
        return run.finish()
    res, vecs = vectors(3, 4) if tier == "quick" else vectors(3, 6)
    run.add_tlc("MC TdfCtor", res)
    run.cov["exhaustive"] = True
    n = 0
    kinds = {}
    for i, v in enumerate(vecs):
        kinds[v["verdict"]] = kinds.get(v["verdict"], 0) + 1
        bad = evaluate(v)
        n += 1
        if bad and len(run.violations) < 5:
            run.violation(f"{bad}: {json.dumps(v['q'])} (specification says {v['verdict']})", dict(kind="ctor", vector=v))
        if i % 3000 == 0:
            run.sample(v)
    run.cov["traces_validated_against_impl"] = n
    run.cov["evaluations"] = n
    run.cov["distinct_nontrivial"] = kinds.get("accept", 0) + kinds.get("refuse", 0)
    run.cov["verdicts"] = kinds
    run.cov["rule"] = ("every (validated constructor parameter, argument descriptor) pair: arrays of every shape of rank 0-3 with "
                       "extents 0-4 in three dtypes, nested lists and tuples of those shapes, None, str, int, float, viewport "
                       "objects; all triples over 11 shapes for coupled arrays; events of both kinds; non-trivial = the table "
                       "fixes the verdict (accept or refuse)")
    return run.finish()
