"""gamma and alpha between the abstract blocks of spec/TdfCodecMC.tla and real
library objects (DESIGN 4.5), plus the token packer.

gamma(kind, fmt, b, vals)  abstract record (JSON from TLC) -> library object, built
                           through public constructors / adders only (one private
                           name: Data2D._camMap, which has no public setter)
alpha(kind, fmt, obj, vals) library object -> abstract record, through public
                           attributes; floats / ints / texts go back to ids by bit
                           pattern, so equality of abstract records is bit-exact
pack(tokens, vals)         spec tokens -> bytes (the definition of the primitive
                           encodings; trusted)
"""
import io
from datetime import datetime

import numpy as np

from . import SRC  # noqa: F401
from .values import Values, pack_prim
from basictdf.basictdf import TdfEntry
from basictdf.tdfBlock import BlockType
from basictdf.tdfCalibrationData import (BTSCameraData, CalibrationDataBlock, CalibrationDataBlockFormat,
                                         DistorsionModel, SeelabCameraData)
from basictdf.tdfData2D import Data2D, Data2DBlockFormat, Data2DFlags
from basictdf.tdfData3D import Data3D, Data3dBlockFormat, Flags, LinkType, MarkerTrack
from basictdf.tdfEMG import EMG, EMGBlockFormat, EMGTrack
from basictdf.tdfEvents import Event, EventsDataType, TemporalEventsData, TemporalEventsDataFormat
from basictdf.tdfForce3D import ForceTorque3D, ForceTorque3DBlockFormat, ForceTorqueTrack
from basictdf.tdfForcePlatformsCalibration import (ForcePlatformCalibrationBlockFormat, ForcePlatformInfo,
                                                   ForcePlatformsCalibrationDataBlock)
from basictdf.tdfForcePlatformsData import ForcePlatformBlockFormat, ForcePlatformData, ForcePlatformsDataBlock
from basictdf.tdfOpticalSystem import OpticalChannelData, OpticalSetupBlock, OpticalSetupBlockFormat
from basictdf.tdfTypes import CameraViewPort

BLOCK_CLASS = {"Data3D": Data3D, "EMG": EMG, "ForceTorque3D": ForceTorque3D, "ForcePlatformsData": ForcePlatformsDataBlock,
               "ForcePlatformsCalibration": ForcePlatformsCalibrationDataBlock, "Data2D": Data2D,
               "CalibrationData": CalibrationDataBlock, "OpticalSetup": OpticalSetupBlock, "Events": TemporalEventsData}
BLOCK_KINDS = list(BLOCK_CLASS)


# ---------------------------------------------------------------------- pack
def pack(tokens, vals, scramble=None):
    """scramble: None, or a function (n) -> n garbage bytes used for every don't-care byte"""
    out = bytearray()
    for t in tokens:
        ty = t["ty"]
        if ty == "pad":
            out += scramble(t["w"]) if scramble else b"\0" * t["w"]
        elif ty == "raw":
            out += bytes.fromhex("824b6041d31184ca6000b6ac16680c08")[: t["w"]]
        elif ty == "str":
            raw = vals.text(t["v"], t["w"]).encode("cp1252") + b"\0"
            assert len(raw) <= t["w"], "abstract text does not fit its field"
            tail = t["w"] - len(raw)
            out += raw + (scramble(tail) if scramble else b"\0" * tail)
        else:
            p = t["p"]
            if p == "n":
                val = t["v"]
            elif p == "f":
                val = vals.flt(ty, t["v"])
            else:
                val = vals.int(p, t["v"])
            out += pack_prim(ty, val)
    return bytes(out)


def dontcare_spans(tokens, vals):
    """[(start, end)] byte ranges the format leaves undefined"""
    pos = 0
    spans = []
    for t in tokens:
        if t["ty"] == "pad":
            spans.append((pos, pos + t["w"]))
        elif t["ty"] == "str":
            used = len(vals.text(t["v"], t["w"]).encode("cp1252")) + 1
            if used < t["w"]:
                spans.append((pos + used, pos + t["w"]))
        pos += t["w"]
    return spans


def rle_spans(tokens):
    pos = 0
    spans = []
    cur = None
    for t in tokens:
        if t.get("g") == "rle":
            if cur is None:
                cur = [pos, pos]
            cur[1] = pos + t["w"]
        elif cur is not None:
            spans.append(tuple(cur))
            cur = None
        pos += t["w"]
    if cur is not None:
        spans.append(tuple(cur))
    return spans


# ---------------------------------------------------------------------- gamma
_MEMK = 0
_MEM = 0   # 1: the same values handed over in another memory layout (set per gamma call from the style)


def _mem(a):
    """the same array content in Fortran order (rank >= 2) or as a strided view (rank 1)"""
    if _MEM == 0 or a.size == 0:
        return a
    global _MEMK
    _MEMK += 1
    if _MEMK % 3 == 1 and a.dtype.kind == "f":
        return a.astype(a.dtype.newbyteorder(">"))      # same values, big-endian storage
    if _MEMK % 3 == 2 and a.dtype == np.dtype("<f4"):
        return a.astype("<f8")                          # same values, wider type
    if a.ndim >= 2:
        return np.asfortranarray(a)
    big = np.full(a.size * 2, 99, dtype=a.dtype)
    big[::2] = a
    return big[::2]


def _arr(vals, ty, ids, shape=None):
    dt = "<f4" if ty == "f32" else "<f8"
    a = np.array([vals.flt(ty, i) for i in ids], dtype=dt)
    return _mem(a.reshape(shape) if shape else a)


def _frames(vals, frames, per):
    """-> float32 array (n, per); missing frame = NaN row"""
    n = len(frames)
    a = np.full((n, per), np.nan, dtype="<f4")
    for i, fr in enumerate(frames):
        if fr:
            a[i] = [vals.flt("f32", x) for x in fr]
    return a


def _vp(vals, d, style):
    o = [vals.int("i32", x) for x in d["vp_origin"]]
    s = [vals.int("i32", x) for x in d["vp_size"]]
    if style == 1:
        return CameraViewPort(o, s)
    if style == 2:
        return CameraViewPort(tuple(o), tuple(s))
    return CameraViewPort(np.array(o, "<i4"), np.array(s, "<i4"))


def gamma(kind, fmt, b, vals, style=0):
    """style varies equivalent ways of handing the same content to the library (0..5: ways of
    attaching items, list / tuple / array arguments; 6..11: the same with the arrays in Fortran
    order or as strided views, and event values as float64 arrays)"""
    global _MEM
    _MEM = (style // 6) % 2
    try:
        return _gamma(kind, fmt, b, vals, style % 6)
    finally:
        _MEM = 0


def _gamma(kind, fmt, b, vals, style=0):
    if kind == "Data3D":
        obj = Data3D(vals.int("i32", b["frequency"]), b["nFrames"], _arr(vals, "f32", b["volume"]),
                     _arr(vals, "f32", b["rotationMatrix"], (3, 3)), _arr(vals, "f32", b["translationVector"]),
                     vals.flt("f32", b["startTime"]), Flags(b["flag"]), Data3dBlockFormat(fmt))
        trs = [MarkerTrack(vals.text(t["label"], 256), _mem(_frames(vals, t["frames"], 3))) for t in b["tracks"]]
        if style % 2:
            obj.tracks = trs
        else:
            for t in trs:
                obj.add_track(t)
        if b["links"]:
            pairs = [(vals.int("u32", l["a"]), vals.int("u32", l["b"])) for l in b["links"]]
            obj.links = pairs if style % 2 else np.array(pairs, dtype=LinkType.btype)
        elif style % 3 == 1 and fmt == 1:
            obj.links = np.array([], dtype=LinkType.btype)
        elif style % 3 == 2 and fmt == 2:
            # a block in the format without links may still carry links (e.g. decoded
            # with links, then switched): they are not part of its encoding
            obj.links = np.array([(1, 2), (2, 3)], dtype=LinkType.btype)
        return obj
    if kind == "EMG":
        obj = EMG(vals.int("i32", b["frequency"]), b["nSamples"], vals.flt("f32", b["startTime"]), EMGBlockFormat(fmt))
        for t, ch in zip(b["signals"], b["chans"]):
            obj.addSignal(EMGTrack(vals.text(t["label"], 256), _mem(_frames(vals, t["frames"], 1)[:, 0].copy())),
                          channel=vals.int("i16", ch))
        return obj
    if kind == "ForceTorque3D":
        obj = ForceTorque3D(vals.int("i32", b["frequency"]), b["nFrames"], _arr(vals, "f32", b["volume"]),
                            _arr(vals, "f32", b["rotationMatrix"], (3, 3)), _arr(vals, "f32", b["translationVector"]),
                            vals.flt("f32", b["startTime"]), ForceTorque3DBlockFormat(fmt))
        trs = []
        for t in b["tracks"]:
            a = _frames(vals, t["frames"], 9)
            trs.append(ForceTorqueTrack(vals.text(t["label"], 256), _mem(a[:, 0:3].copy()), _mem(a[:, 3:6].copy()),
                                        _mem(a[:, 6:9].copy())))
        if style % 2:
            obj.tracks = trs
        else:
            for t in trs:
                obj.add_track(t)
        return obj
    if kind == "ForcePlatformsData":
        obj = ForcePlatformsDataBlock(vals.flt("f32", b["startTime"]), vals.int("i32", b["frequency"]), b["nFrames"],
                                      ForcePlatformBlockFormat(fmt))
        for p, ch in zip(b["platforms"], b["chans"]):
            a = _frames(vals, p["frames"], 6)
            obj.add_platform(ForcePlatformData(_mem(a[:, 0:2].copy()), _mem(a[:, 2:5].copy()), _mem(a[:, 5].copy())),
                             channel=vals.int("u16", ch))
        return obj
    if kind == "ForcePlatformsCalibration":
        obj = ForcePlatformsCalibrationDataBlock(format=ForcePlatformCalibrationBlockFormat(fmt))
        for p, ch in zip(b["platforms"], b["chans"]):
            obj.add_platform(ForcePlatformInfo(vals.text(p["label"], 256), _arr(vals, "f32", p["size"]),
                                               _arr(vals, "f32", p["position"], (4, 3))), channel=vals.int("i16", ch))
        return obj
    if kind == "Data2D":
        ncam = len(b["camMap"])
        obj = Data2D(ncam, b["nFrames"], vals.int("i32", b["frequency"]), vals.flt("f32", b["startTime"]),
                     Data2DFlags(b["flags"]), Data2DBlockFormat(fmt))
        obj._camMap = [vals.int("u15", c) for c in b["camMap"]]
        data = np.empty((b["nFrames"], ncam), dtype=object)
        for fr in range(b["nFrames"]):
            for c in range(ncam):
                pts = b["data"][fr][c]
                data[fr, c] = (np.array([[vals.flt("f32", x), vals.flt("f32", y)] for x, y in pts], dtype="<f4")
                               if pts else None)
        obj.data = data
        return obj
    if kind == "CalibrationData":
        cams = []
        for c in b["cams"]:
            if fmt == 1:
                cams.append(SeelabCameraData(_arr(vals, "f64", c["rotation_matrix"], (3, 3)),
                                             _arr(vals, "f64", c["translation_vector"]), _arr(vals, "f64", c["focus"]),
                                             _arr(vals, "f64", c["optical_center"]), _arr(vals, "f64", c["radial_distortion"]),
                                             _arr(vals, "f64", c["decentering"]), _arr(vals, "f64", c["thin_prism"]),
                                             _vp(vals, c, style)))
            else:
                cams.append(BTSCameraData(_arr(vals, "f64", c["rotation_matrix"], (3, 3)),
                                          _arr(vals, "f64", c["translation_vector"]), _arr(vals, "f64", c["focus"]),
                                          _arr(vals, "f64", c["optical_center"]),
                                          _arr(vals, "f64", c["x_distortion_coefficients"]),
                                          _arr(vals, "f64", c["y_distortion_coefficients"]), _vp(vals, c, style)))
        return CalibrationDataBlock(DistorsionModel(b["distorsion_model"]), _arr(vals, "f32", b["size"]),
                                    _arr(vals, "f32", b["rotationMatrix"], (3, 3)), _arr(vals, "f32", b["translationVector"]),
                                    np.array([vals.int("i16", c) for c in b["chans"]], dtype="<i2"), cams,
                                    CalibrationDataBlockFormat(fmt))
    if kind == "OpticalSetup":
        chans = [OpticalChannelData(vals.int("i32", c["logical_camera_index"]), vals.text(c["lens_name"], 32),
                                    vals.text(c["camera_type"], 32), vals.text(c["camera_name"], 32), _vp(vals, c, style))
                 for c in b["channels"]]
        return OpticalSetupBlock(OpticalSetupBlockFormat(fmt), chans)
    if kind == "Events":
        obj = TemporalEventsData(TemporalEventsDataFormat(fmt), vals.flt("f32", b["startTime"]))
        for e in b["events"]:
            v = [vals.flt("f32", x) for x in e["values"]]
            if _MEM:
                v = _mem(np.array(v, dtype="<f8"))      # exact: the values are float32-representable
            elif style % 2:
                v = np.array(v, dtype="<f4")
            obj.events.append(Event(vals.text(e["label"], 256), v, EventsDataType(e["type"])))
        return obj
    if kind == "Entry":
        return TdfEntry(BlockType(b["type"]), vals.int("u31", b["format"]), vals.int("u31", b["offset"]),
                        vals.int("u31", b["size"]), datetime.fromtimestamp(vals.int("u31", b["cdate"])),
                        datetime.fromtimestamp(vals.int("u31", b["mdate"])), datetime.fromtimestamp(vals.int("u31", b["adate"])),
                        vals.text(b["comment"], 256))
    raise ValueError(kind)


# ---------------------------------------------------------------------- alpha
def _ids(vals, ty, a):
    return [vals.flt_id(ty, x) for x in np.asarray(a).reshape(-1)]


def _frames_abs(vals, cols, per):
    """cols: list of arrays (n, k_i) / (n,) that together give `per` components per frame"""
    parts = [np.asarray(c).reshape(len(c), -1) for c in cols]
    a = np.concatenate(parts, axis=1) if parts else np.zeros((0, per))
    out = []
    for row in a:
        nan = np.isnan(row)
        if nan.all():
            out.append([])
        elif nan.any():
            out.append(["partial-nan"])
        else:
            out.append([vals.flt_id("f32", x) for x in row])
    return out


def _vp_abs(vals, vp):
    return dict(vp_origin=[vals.int_id("i32", x) for x in np.asarray(vp.origin).reshape(-1)],
                vp_size=[vals.int_id("i32", x) for x in np.asarray(vp.size).reshape(-1)])


def alpha(kind, fmt, obj, vals):
    if kind == "Data3D":
        links = getattr(obj, "links", [])
        return dict(nFrames=int(obj.nFrames), frequency=vals.int_id("i32", obj.frequency),
                    startTime=vals.flt_id("f32", obj.startTime), flag=obj.flag.value,
                    volume=_ids(vals, "f32", obj.volume), rotationMatrix=_ids(vals, "f32", obj.rotationMatrix),
                    translationVector=_ids(vals, "f32", obj.translationVector),
                    links=[dict(a=vals.int_id("u32", l[0]), b=vals.int_id("u32", l[1])) for l in links] if fmt == 1 else [],
                    tracks=[dict(label=vals.text_id(256, t.label), frames=_frames_abs(vals, [t.data], 3)) for t in obj])
    if kind == "EMG":
        # the channel map has no public reader: it is taken from the encoding
        sigs = list(obj)
        raw = encode(obj)
        chans = list(np.frombuffer(raw[16:16 + 2 * len(sigs)], dtype="<i2"))
        return dict(frequency=vals.int_id("i32", obj.frequency), startTime=vals.flt_id("f32", obj.startTime),
                    nSamples=int(obj.nSamples), chans=[vals.int_id("i16", c) for c in chans],
                    signals=[dict(label=vals.text_id(256, t.label), frames=_frames_abs(vals, [t.data], 1)) for t in sigs])
    if kind == "ForceTorque3D":
        return dict(frequency=vals.int_id("i32", obj.frequency), startTime=vals.flt_id("f32", obj.startTime),
                    nFrames=int(obj.nFrames), volume=_ids(vals, "f32", obj.volume),
                    rotationMatrix=_ids(vals, "f32", obj.rotationMatrix),
                    translationVector=_ids(vals, "f32", obj.translationVector),
                    tracks=[dict(label=vals.text_id(256, t.label),
                                 frames=_frames_abs(vals, [t.application_point, t.force, t.torque], 9)) for t in obj])
    if kind == "ForcePlatformsData":
        pairs = list(obj)
        return dict(frequency=vals.int_id("i32", obj.frequency), startTime=vals.flt_id("f32", obj.start_time),
                    nFrames=int(obj.n_frames), chans=[vals.int_id("u16", c) for c, _ in pairs],
                    platforms=[dict(frames=_frames_abs(vals, [p.application_point, p.force, p.torque], 6)) for _, p in pairs])
    if kind == "ForcePlatformsCalibration":
        pairs = obj.platforms
        return dict(chans=[vals.int_id("i16", c) for c, _ in pairs],
                    platforms=[dict(label=vals.text_id(256, p.label), size=_ids(vals, "f32", p.size),
                                    position=_ids(vals, "f32", p.position)) for _, p in pairs])
    if kind == "Data2D":
        raw = encode(obj)
        ncam = int(obj.nCams)
        cam = list(np.frombuffer(raw[20:20 + 2 * ncam], dtype="<u2"))
        data = []
        for fr in range(int(obj.nFrames)):
            row = []
            for c in range(ncam):
                cell = obj.data[fr, c]
                row.append([] if cell is None else [[vals.flt_id("f32", p[0]), vals.flt_id("f32", p[1])] for p in cell])
            data.append(row)
        return dict(nFrames=int(obj.nFrames), frequency=vals.int_id("i32", obj.frequency),
                    startTime=vals.flt_id("f32", obj.startTime), flags=obj.flags.value,
                    camMap=[vals.int_id("u15", c) for c in cam], data=data)
    if kind == "CalibrationData":
        cams = []
        for _, c in obj:
            d = dict(rotation_matrix=_ids(vals, "f64", c.rotation_matrix), translation_vector=_ids(vals, "f64", c.translation_vector),
                     focus=_ids(vals, "f64", c.focus), optical_center=_ids(vals, "f64", c.optical_center))
            if fmt == 1:
                d.update(radial_distortion=_ids(vals, "f64", c.radial_distortion), decentering=_ids(vals, "f64", c.decentering),
                         thin_prism=_ids(vals, "f64", c.thin_prism))
            else:
                d.update(x_distortion_coefficients=_ids(vals, "f64", c.x_distortion_coefficients),
                         y_distortion_coefficients=_ids(vals, "f64", c.y_distortion_coefficients))
            d.update(_vp_abs(vals, c.view_port))
            cams.append(d)
        return dict(distorsion_model=int(obj.distorsion_model), size=_ids(vals, "f32", obj.calibration_volume_size),
                    rotationMatrix=_ids(vals, "f32", obj.calibration_volume_rotation_matrix),
                    translationVector=_ids(vals, "f32", obj.calibration_volume_translation_vector),
                    chans=[vals.int_id("i16", c) for c in np.asarray(obj.cameras_calibration_map).reshape(-1)], cams=cams)
    if kind == "OpticalSetup":
        return dict(channels=[dict(logical_camera_index=vals.int_id("i32", c.logical_camera_index),
                                   lens_name=vals.text_id(32, c.lens_name), camera_type=vals.text_id(32, c.camera_type),
                                   camera_name=vals.text_id(32, c.camera_name), **_vp_abs(vals, c.camera_viewport))
                              for c in obj])
    if kind == "Events":
        return dict(startTime=vals.flt_id("f32", obj.start_time),
                    events=[dict(label=vals.text_id(256, e.label), type=e.type.value, values=_ids(vals, "f32", e.values))
                            for e in obj])
    raise ValueError(kind)


def encode(obj):
    s = io.BytesIO()
    obj._write(s)
    return s.getvalue()


def decode(kind, fmt, data, trailing=b""):
    """-> (object, stream position after decoding)"""
    s = io.BytesIO(data + trailing)
    if kind == "Entry":
        obj = TdfEntry._build(s)
    else:
        obj = BLOCK_CLASS[kind]._build(s, fmt)
    return obj, s.tell()


def items_of(kind, obj):
    """nested items that have their own size / encoder (C02)"""
    if kind in ("Data3D", "ForceTorque3D", "EMG", "Events", "OpticalSetup"):
        return list(obj)
    if kind in ("ForcePlatformsData", "CalibrationData"):
        return [p for _, p in obj]
    if kind == "ForcePlatformsCalibration":
        return [p for _, p in obj.platforms]
    return []
