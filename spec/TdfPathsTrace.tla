--------------------------- MODULE TdfPathsTrace ---------------------------
(***************************************************************************)
(* Trace validation for TdfPaths (C17): real executions of Tdf.new,        *)
(* Tdf.copy, Tdf(path), context entry, a reader and a mutation over a few  *)
(* real paths, recorded by lib/verif/paths.py.  After each call every path *)
(* is observed (exists? empty? TDF signature? content id; for TDF files    *)
(* the header and table parsed by the independent reader) and TLC decides  *)
(* whether the step is one TdfPaths!Allowed admits.  A new file counts as  *)
(* the canonical empty container (content id 1) only if TLC finds its      *)
(* parsed header and table to be exactly that.                             *)
(***************************************************************************)
EXTENDS TdfPathsCore, Json, IOUtils, Sequences, SequencesExt

Traces == JsonDeserialize(IOEnv.TRACE_FILE)

VARIABLES tid, l, cur, cl
tvars == <<tid, l, cur, cl>>
T == Traces[tid]

\* valid signature, version 1, 14 unused slots all pointing at the end of the
\* 4096-byte table, nothing after it
Canonical(x) ==
  /\ x.kind = "tdf" /\ x.sigok /\ x.version = 1 /\ x.n = 14 /\ x.flen = 64 + 288 * 14
  /\ Len(x.table) = 14
  /\ \A i \in 1..14 : x.table[i][1] = 0 /\ x.table[i][3] = 64 + 288 * 14 /\ x.table[i][4] = 0

Abs(x) == [kind |-> x.kind, cid |-> IF x.kind \in {"absent", "empty"} THEN 0
                                     ELSE IF Canonical(x) THEN 1 ELSE 10 + x.sha,
           sha |-> IF x.kind \in {"absent", "empty"} THEN 0 ELSE x.sha]
AbsFs(obs) == [p \in Paths |-> Abs(obs[p])]

OpOf(ev) == IF ev.op \in {"copy", "mcopy"} THEN [op |-> ev.op, p |-> ev.p, q |-> ev.q] ELSE [op |-> ev.op, p |-> ev.p]

Name(op) == CASE op = "new" -> "C17:new"
              [] op \in {"copy", "mcopy"} -> "C17:copy"
              [] op = "mutate" -> "C17:independence"
              [] OTHER -> "C17:open"

\* mutate is only judged for what it must NOT do (touch other paths); that it
\* succeeds on a TDF file is the business of C03..C11
StepOK(pre, o, t, res) ==
  IF o.op = "mutate" THEN \A q \in Paths \ {o.p} : t[q] = pre[q]
  ELSE Allowed(pre, o, t, res)

Init == /\ tid \in 1..Len(Traces)
        /\ l = 1
        /\ cur = AbsFs(Traces[tid].init)
        /\ cl = {}

Step == /\ l <= Len(T.steps)
        /\ LET ev == T.steps[l]
               o  == OpOf(ev)
               t  == AbsFs(ev.obs)
           IN /\ cl' = IF StepOK(cur, o, t, ev.res) THEN cl ELSE cl \cup {<<l, Name(o.op)>>}
              /\ cur' = t
        /\ l' = l + 1
        /\ UNCHANGED tid
Spec == Init /\ [][Step]_tvars
Report == IF l > Len(T.steps)
          THEN PrintT("END " \o ToJson([tid |-> tid, l |-> l - 1, cl |-> SetToSeq({<<c[1], c[2]>> : c \in cl})]))
          ELSE TRUE
=============================================================================
