---------------------------- MODULE TdfStrings ----------------------------
(***************************************************************************)
(* Fixed-width text fields (C13).  Characters are abstracted to four       *)
(* classes: 1 = ASCII, 2 = encodable in Windows-1252 as a byte >= 0x80,    *)
(* 3 = not encodable in Windows-1252, 0 = NUL.  A field of width w holds   *)
(* the encoded text, a NUL terminator and zero padding.                    *)
(*                                                                         *)
(*   Write(w, s)  "refused" (ValueError) iff some character is not         *)
(*                encodable or the text with its terminator does not fit;  *)
(*                otherwise exactly w bytes                                *)
(*   Read(w, b)   the bytes before the first NUL (all of them if none)     *)
(***************************************************************************)
EXTENDS Integers, Sequences, FiniteSets, TLC, Json

CONSTANTS MaxW       \* widths 1..MaxW, all texts of length 0..w+1

Encodable(c) == c # 3
Fits(w, s)   == Len(s) + 1 <= w
Accepts(w, s) == Fits(w, s) /\ \A i \in 1..Len(s) : Encodable(s[i])
Write(w, s)  == s \o <<0>> \o [i \in 1..(w - Len(s) - 1) |-> 0]

FirstNul(b)  == IF \E i \in 1..Len(b) : b[i] = 0
                THEN CHOOSE i \in 1..Len(b) : b[i] = 0 /\ \A j \in 1..(i - 1) : b[j] # 0
                ELSE Len(b) + 1
Read(w, b)   == SubSeq(b, 1, FirstNul(b) - 1)

RECURSIVE Texts(_)
Texts(k) == IF k = 0 THEN {<<>>} ELSE Texts(k - 1) \cup {Append(x, c) : x \in {y \in Texts(k - 1) : Len(y) = k - 1}, c \in 0..3}

VARIABLES w, s
vars == <<w, s>>
Init == w \in 1..MaxW /\ s \in Texts(w + 1)
Next == UNCHANGED vars
Spec == Init /\ [][Next]_vars

NulFree(t) == \A i \in 1..Len(t) : t[i] # 0

\* accepted => exactly the field width, terminated, zero padded
StrExact == Accepts(w, s) => LET b == Write(w, s) IN
              /\ Len(b) = w
              /\ b[Len(s) + 1] = 0
              /\ \A i \in (Len(s) + 1)..w : b[i] = 0
              /\ SubSeq(b, 1, Len(s)) = s                       \* nothing lost, nothing truncated
\* valid text comes back identical
StrRoundTrip == (Accepts(w, s) /\ NulFree(s)) => Read(w, Write(w, s)) = s
\* refusal is exactly "too long or not encodable"
StrRefuse == ~Accepts(w, s) <=> (Len(s) + 1 > w \/ \E i \in 1..Len(s) : s[i] = 3)

Emit == PrintT("STR " \o ToJson([w |-> w, s |-> s, ok |-> Accepts(w, s),
                                  bytes |-> IF Accepts(w, s) THEN Write(w, s) ELSE <<>>,
                                  back |-> IF Accepts(w, s) THEN Read(w, Write(w, s)) ELSE <<>>]))
=============================================================================
