-------------------------- MODULE TdfHandlesTrace --------------------------
(***************************************************************************)
(* Replay of TdfHandles behaviours on the real library (lib/verif/         *)
(* handles.py): several Tdf objects open on one file, calls made through   *)
(* them in the order a TLC tour prescribes.  The state (file and every     *)
(* object's copy of the table) evolves by the operators of TdfHandles from *)
(* the known initial file; after every call the prediction is compared     *)
(* with the table parsed from the real file, the file length and every     *)
(* object's own table.  The predicted byte layout of the data region is    *)
(* printed per step; the harness materialises it from the registered       *)
(* payloads and compares it with the real bytes (clause conf:h_bytes).     *)
(* Real geometry (HDR = 64, ENT = 288).  All clauses are "conf:": this     *)
(* behaviour is documented, no listed property speaks about it.            *)
(***************************************************************************)
EXTENDS TdfHandlesCore, TLC, Json, IOUtils, SequencesExt

Traces == JsonDeserialize(IOEnv.TRACE_FILE)

VARIABLES tid, l, disk, hs, cl, dead, lay
vars == <<tid, l, disk, hs, cl, dead, lay>>
T == Traces[tid]

Row(r) == [type |-> r[1], format |-> r[2], offset |-> r[3], size |-> r[4],
           comment |-> r[5], cdate |-> r[6], mdate |-> r[7]]
AbsTable(rows) == [i \in 1..Len(rows) |-> Row(rows[i])]
AbsData(ex) == [i \in 1..Len(ex) |-> [u |-> ex[i][1], lo |-> ex[i][2], hi |-> ex[i][3]]]
\* unused slots: text and dates are whatever the writer put there - compared nowhere
CanonT(tb) == [i \in 1..Len(tb) |-> IF tb[i].type = 0 THEN Unused(tb[i].offset) ELSE tb[i]]

Closed == [open |-> FALSE, write |-> FALSE, tab |-> <<>>]
If(c, name) == IF c THEN {name} ELSE {}

Init == /\ tid \in 1..Len(Traces)
        /\ l = 1
        /\ disk = [n |-> T.init.n, sigok |-> TRUE, version |-> 1, table |-> CanonT(AbsTable(T.init.table)),
                   data |-> AbsData(T.init.data)]
        /\ hs = [h \in 1..2 |-> Closed]
        /\ cl = {}
        /\ dead = FALSE
        /\ lay = <<>>

BlkOf(ev) == [t |-> ev.t, fmt |-> ev.fmt, u |-> ev.u, sz |-> ev.sz, c |-> ev.c, cd |-> ev.cd, md |-> ev.md]

\* predicted effect of the event on (disk, hs); refusals leave everything as it is
Pred(ev) ==
  LET h == ev.h IN
  CASE ev.op = "enter" -> [d |-> disk, hs |-> [hs EXCEPT ![h] = [open |-> TRUE, write |-> ev.w, tab |-> disk.table]], ok |-> TRUE]
    [] ev.op = "exit"  -> [d |-> disk, hs |-> [hs EXCEPT ![h] = Closed], ok |-> TRUE]
    [] ev.op = "add"   ->
         IF ~hs[h].open \/ ~hs[h].write \/ AddCauses(hs[h].tab, BlkOf(ev)) # {} THEN [d |-> disk, hs |-> hs, ok |-> FALSE]
         ELSE LET r == HAdd(hs[h].tab, disk, BlkOf(ev)) IN [d |-> r.d, hs |-> [hs EXCEPT ![h].tab = r.m], ok |-> TRUE]
    [] ev.op = "replace" ->
         IF ~hs[h].open \/ ~hs[h].write \/ RepCauses(hs[h].tab, BlkOf(ev)) # {} THEN [d |-> disk, hs |-> hs, ok |-> FALSE]
         ELSE LET r == HReplace(hs[h].tab, disk, BlkOf(ev)) IN [d |-> r.d, hs |-> [hs EXCEPT ![h].tab = r.m], ok |-> r.ok]
    [] ev.op = "remove" ->
         IF ~hs[h].open \/ ~hs[h].write \/ RemCauses(hs[h].tab, ev.t) # {} THEN [d |-> disk, hs |-> hs, ok |-> FALSE]
         ELSE LET r == HRemove(hs[h].tab, disk, ev.t) IN [d |-> r.d, hs |-> [hs EXCEPT ![h].tab = r.m], ok |-> TRUE]

Clauses(ev, p) ==
     If(ev.ok # p.ok, "conf:h_outcome")
  \cup If(Len(ev.table) # p.d.n \/ (Len(ev.table) = p.d.n /\ CanonT(AbsTable(ev.table)) # CanonT(p.d.table)), "conf:h_disk_table")
  \cup If(ev.flen # TableEnd(p.d) + DLen(p.d.data), "conf:h_file_length")
  \cup If(\E h \in 1..2 : p.hs[h].open /\ CanonT(AbsTable(ev.mems[h])) # CanonT(p.hs[h].tab),
          IF p.hs[ev.h].open /\ CanonT(AbsTable(ev.mems[ev.h])) # CanonT(p.hs[ev.h].tab) THEN "conf:h_own_copy" ELSE "conf:h_other_copy")

\* the data region starts at the end of the table: once a stale copy has produced an offset in
\* front of it (block bytes written into the table), the file is outside what TdfFile can describe
\* and the replay stops there without a verdict
InRange(p) == /\ \A i \in 1..p.d.n : p.d.table[i].offset >= TableEnd(p.d)
              /\ \A h \in 1..2 : p.hs[h].open => \A i \in 1..Len(p.hs[h].tab) : p.hs[h].tab[i].offset >= TableEnd(p.d)

Step ==
  /\ ~dead /\ l <= Len(T.steps)
  /\ LET ev == T.steps[l]
         p  == Pred(ev)
         cs == Clauses(ev, p)
     IN /\ disk' = p.d
        /\ hs' = p.hs
        /\ cl' = cl \cup (IF InRange(p) THEN {<<l, c>> : c \in cs} ELSE {<<l, "left_modelled_range">>})
        /\ dead' = (cs # {} \/ ~InRange(p))
        /\ lay' = Append(lay, [i \in 1..Len(p.d.data) |-> <<p.d.data[i].u, p.d.data[i].lo, p.d.data[i].hi>>])
  /\ l' = l + 1
  /\ UNCHANGED tid

Spec == Init /\ [][Step]_vars

Finished == dead \/ l > Len(T.steps)
Report == IF Finished
          THEN PrintT("END " \o ToJson([tid |-> tid, l |-> l - 1, cl |-> SetToSeq({<<c[1], c[2]>> : c \in cl}), lay |-> lay,
                                        \* where a replay stopped: the predicted tables (type, offset, size), for the report
                                        at |-> IF dead THEN [d |-> [i \in 1..disk.n |-> <<disk.table[i].type, disk.table[i].offset, disk.table[i].size>>],
                                                             h |-> [h \in 1..2 |-> IF hs[h].open THEN [i \in 1..Len(hs[h].tab) |-> <<hs[h].tab[i].type, hs[h].tab[i].offset, hs[h].tab[i].size>>] ELSE <<>>]]
                                               ELSE <<>>]))
          ELSE TRUE
=============================================================================
