---------------------------- MODULE TdfTableRel ----------------------------
(***************************************************************************)
(* The jump table alone - types, offsets, sizes, file length - and the     *)
(* effect of add and remove on it, as RELATIONS between two table values.  *)
(* No payload identities, no extents.  Used twice:                         *)
(*  - MCSession (TLC): InvTableAgree checks, in every reachable state and  *)
(*    for every accepted add / remove / replace, that the table part of    *)
(*    TdfFile!AddFile / RemoveFile satisfies AddRel / RemRel;              *)
(*  - TdfTableInd (Apalache): TInv is an inductive invariant of the        *)
(*    transition system whose steps are exactly these relations, for       *)
(*    N = 14 and arbitrary integer offsets and sizes.                      *)
(* A table value is a record [ty, off, sz, flen] of three functions        *)
(* 1..N -> Int and the file length.                                        *)
(***************************************************************************)
EXTENDS Integers

CONSTANTS
  \* @type: Int;
  N,
  \* @type: Int;
  TE

Slots == 1..N

\* @type: ({ty: Int -> Int, off: Int -> Int, sz: Int -> Int, flen: Int}, Int) => Bool;
TLive(x, i) == x.ty[i] # 0
\* @type: ({ty: Int -> Int, off: Int -> Int, sz: Int -> Int, flen: Int}, Int) => Int;
TEnd(x, i) == x.off[i] + x.sz[i]

\* C03 on the table
\* @type: ({ty: Int -> Int, off: Int -> Int, sz: Int -> Int, flen: Int}) => Bool;
TSound(x) ==
  /\ \A i \in Slots : TLive(x, i) => (x.sz[i] > 0 /\ TE <= x.off[i] /\ TEnd(x, i) <= x.flen)
  /\ \A i \in Slots : \A j \in Slots :
        (i # j /\ TLive(x, i) /\ TLive(x, j)) => (TEnd(x, i) <= x.off[j] \/ TEnd(x, j) <= x.off[i])
  /\ \A i \in Slots : ~TLive(x, i) => x.sz[i] = 0
\* the explored family: free slots point at or beyond the end of every live range, inside the file
\* (or, for a slot that is not the first unused one, at the end of the table)
\* @type: ({ty: Int -> Int, off: Int -> Int, sz: Int -> Int, flen: Int}) => Bool;
TFamily(x) ==
  /\ \A i \in Slots : ~TLive(x, i) =>
        \/ /\ \A j \in Slots : TLive(x, j) => TEnd(x, j) <= x.off[i]
           /\ TE <= x.off[i] /\ x.off[i] <= x.flen
        \* a spare unused slot (not the first one) may still carry the end of the table: nothing ever
        \* reads it, the next add re-points it
        \/ /\ x.off[i] = TE
           /\ \E j \in Slots : j < i /\ ~TLive(x, j)
  /\ x.flen >= TE
\* @type: ({ty: Int -> Int, off: Int -> Int, sz: Int -> Int, flen: Int}) => Bool;
TUnique(x) == \A i \in Slots : \A j \in Slots : (TLive(x, i) /\ TLive(x, j) /\ x.ty[i] = x.ty[j]) => i = j
\* @type: ({ty: Int -> Int, off: Int -> Int, sz: Int -> Int, flen: Int}) => Bool;
TInv(x) == TSound(x) /\ TFamily(x) /\ TUnique(x)

\* add of a block of type t and size s: first unused slot k (everything behind it unused),
\* entry at that slot's offset, later slots re-pointed behind the new block
\* @type: ({ty: Int -> Int, off: Int -> Int, sz: Int -> Int, flen: Int}, {ty: Int -> Int, off: Int -> Int, sz: Int -> Int, flen: Int}, Int, Int) => Bool;
AddRel(x, y, t, s) ==
  /\ t # 0 /\ s > 0
  /\ \A i \in Slots : x.ty[i] # t
  /\ \E k \in Slots :
       /\ ~TLive(x, k) /\ \A j \in Slots : j < k => TLive(x, j)
       /\ \A j \in Slots : j > k => ~TLive(x, j)
       /\ y.ty = [x.ty EXCEPT ![k] = t]
       /\ y.sz = [x.sz EXCEPT ![k] = s]
       /\ y.off = [i \in Slots |-> IF i > k THEN x.off[k] + s ELSE x.off[i]]
       /\ y.flen = IF x.off[k] + s > x.flen THEN x.off[k] + s ELSE x.flen

\* @type: (Int, Int) => Int;
Src(k, i) == IF i < k THEN i ELSE i + 1
\* @type: ({ty: Int -> Int, off: Int -> Int, sz: Int -> Int, flen: Int}, Int, Int) => Int;
Down(x, k, o) == IF o > x.off[k] THEN o - x.sz[k] ELSE o

\* remove of the (first) block of type t: its entry deleted, the entries listed behind it move up
\* one slot, every entry stored behind the removed block shifted down by its size, a new unused
\* slot whose offset is at or behind the end of everything that is left and inside the file
\* (the code takes the maximum end; EndFits shows that this is such a value)
\* @type: ({ty: Int -> Int, off: Int -> Int, sz: Int -> Int, flen: Int}, {ty: Int -> Int, off: Int -> Int, sz: Int -> Int, flen: Int}, Int) => Bool;
RemRel(x, y, t) ==
  \E k \in Slots :
    /\ x.ty[k] = t /\ t # 0 /\ \A j \in Slots : j < k => x.ty[j] # t
    /\ y.ty = [i \in Slots |-> IF i = N THEN 0 ELSE x.ty[Src(k, i)]]
    /\ y.sz = [i \in Slots |-> IF i = N THEN 0 ELSE x.sz[Src(k, i)]]
    /\ y.flen = x.flen - x.sz[k]
    /\ \A i \in Slots : i < N => y.off[i] = Down(x, k, x.off[Src(k, i)])
    /\ \A i \in Slots : i < N => y.off[N] >= Down(x, k, x.off[Src(k, i)]) + x.sz[Src(k, i)]
    /\ y.off[N] >= TE /\ y.off[N] <= x.flen - x.sz[k]

\* the end of every shifted entry fits into the shortened file
\* @type: ({ty: Int -> Int, off: Int -> Int, sz: Int -> Int, flen: Int}) => Bool;
EndFits(x) == \A k \in Slots : TLive(x, k) =>
                 \A j \in Slots : j # k => Down(x, k, x.off[j]) + x.sz[j] <= x.flen - x.sz[k]
=============================================================================
