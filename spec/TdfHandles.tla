----------------------------- MODULE TdfHandles -----------------------------
(***************************************************************************)
(* Several Tdf objects ("handles") open on ONE file at the same time.      *)
(*                                                                         *)
(* Beyond the listed properties: they all speak about one object at a      *)
(* time.  The library has no locking; every object parses the jump table   *)
(* when it enters its context and from then on works from that copy.  This *)
(* module says exactly what add and remove do when the copy is stale:      *)
(* which table slots are rewritten on disk (not all of them), where the    *)
(* block bytes go, what is moved and where the file is truncated.  With    *)
(* one handle, or whenever the handle's copy equals the table on disk, the *)
(* operators coincide with TdfFile!AddFile / RemoveFile (InvRefines), so   *)
(* everything established for the single-object models carries over.       *)
(*                                                                         *)
(* What TLC shows for two handles (MC_handles.cfg):                        *)
(*   InvRefines    a step through a handle whose copy is up to date is a   *)
(*                 TdfFile step and leaves the copy up to date     HOLDS   *)
(*   InvIsolation  a call through h never changes another handle's copy    *)
(*                                                                 HOLDS   *)
(*   InvCleanSound as long as no mutation went through a stale copy the    *)
(*                 file is sound and types are unique              HOLDS   *)
(*   LostUpdate    the file stays well-formed                 DOES NOT -   *)
(*                 two overlapping write contexts lose updates: the        *)
(*                 counterexample TLC prints (A enters, B enters, A adds,  *)
(*                 B adds) is replayed on the real library, which produces *)
(*                 exactly the predicted bytes.  This is documented        *)
(*                 behaviour of a library without locking, not a           *)
(*                 violation of a listed property (DESIGN 3.10).           *)
(***************************************************************************)
EXTENDS TdfHandlesCore, TLC

CONSTANTS NH,        \* number of handles
          N,         \* table slots
          Types,     \* block types in play
          KS         \* payload variants per type

Handles == 1..NH
TE == HDR + ENT * N

\* payloads as in MCSession: u = 10 * type + variant, size from the variant
TypeOfU(u) == u \div 10
SizeOfU(u) == ((u % 10) % 3) + 1
Blk(u) == [t |-> TypeOfU(u), fmt |-> 1, u |-> u, sz |-> SizeOfU(u), c |-> 1, cd |-> u, md |-> u + 100]
Pay == {10 * t + k : t \in Types, k \in KS}

-----------------------------------------------------------------------------
VARIABLES disk,     \* the file
          hs,       \* handle -> [open, write, tab]
          clean,    \* ghost: no mutation has gone through a stale copy so far
          started   \* the initial file has been chosen (Setup is the first step of every behaviour)
vars == <<disk, hs, clean, started>>

Closed == [open |-> FALSE, write |-> FALSE, tab |-> <<>>]

\* initial files: empty, or one / two blocks of the first types, compact
InitFile(k) ==
  LET ts == [i \in 1..k |-> 10 * i + 1]
      off[i \in 1..(k + 1)] == IF i = 1 THEN TE ELSE off[i - 1] + SizeOfU(ts[i - 1])
      RECURSIVE Dat(_)
      Dat(i) == IF i > k THEN <<>> ELSE Whole(ts[i], SizeOfU(ts[i])) \o Dat(i + 1)
  IN [n |-> N, sigok |-> TRUE, version |-> 1,
      table |-> [i \in 1..N |-> IF i <= k THEN NewEntry(Blk(ts[i]), off[i]) ELSE Unused(off[k + 1])],
      data |-> Norm(Dat(1))]

Init == /\ disk = InitFile(0)
        /\ hs = [h \in Handles |-> Closed]
        /\ clean = TRUE
        /\ started = FALSE

Setup(k) == /\ ~started /\ k <= N /\ k <= Cardinality(Types)
            /\ started' = TRUE /\ disk' = InitFile(k) /\ UNCHANGED <<hs, clean>>

Enter(h, w) == /\ started /\ ~hs[h].open
               /\ hs' = [hs EXCEPT ![h] = [open |-> TRUE, write |-> w, tab |-> disk.table]]
               /\ UNCHANGED <<disk, clean, started>>
Exit(h)     == /\ hs[h].open
               /\ hs' = [hs EXCEPT ![h] = Closed]
               /\ UNCHANGED <<disk, clean, started>>
AddOk(h, u) == /\ hs[h].open /\ hs[h].write /\ AddCauses(hs[h].tab, Blk(u)) = {}
               /\ LET r == HAdd(hs[h].tab, disk, Blk(u)) IN
                    disk' = r.d /\ hs' = [hs EXCEPT ![h].tab = r.m]
               /\ clean' = (clean /\ hs[h].tab = disk.table) /\ UNCHANGED started
AddNo(h, u) == /\ hs[h].open /\ hs[h].write /\ AddCauses(hs[h].tab, Blk(u)) # {}
               /\ UNCHANGED vars
RemOk(h, t) == /\ hs[h].open /\ hs[h].write /\ RemCauses(hs[h].tab, t) = {}
               /\ LET r == HRemove(hs[h].tab, disk, t) IN
                    disk' = r.d /\ hs' = [hs EXCEPT ![h].tab = r.m]
               /\ clean' = (clean /\ hs[h].tab = disk.table) /\ UNCHANGED started
RepOk(h, u) == /\ hs[h].open /\ hs[h].write /\ RepCauses(hs[h].tab, Blk(u)) = {}
               /\ LET r == HReplace(hs[h].tab, disk, Blk(u)) IN
                    r.ok /\ disk' = r.d /\ hs' = [hs EXCEPT ![h].tab = r.m]
               /\ clean' = (clean /\ hs[h].tab = disk.table) /\ UNCHANGED started
\* the removal done, the add refused (only possible through a stale copy): the call raises
RepHalf(h, u) == /\ hs[h].open /\ hs[h].write /\ RepCauses(hs[h].tab, Blk(u)) = {}
                 /\ LET r == HReplace(hs[h].tab, disk, Blk(u)) IN
                      ~r.ok /\ disk' = r.d /\ hs' = [hs EXCEPT ![h].tab = r.m]
                 /\ clean' = (clean /\ hs[h].tab = disk.table) /\ UNCHANGED started
RepNo(h, u) == /\ hs[h].open /\ hs[h].write /\ RepCauses(hs[h].tab, Blk(u)) # {}
               /\ UNCHANGED vars
RemNo(h, t) == /\ hs[h].open /\ hs[h].write /\ RemCauses(hs[h].tab, t) # {}
               /\ UNCHANGED vars

Next == \/ \E k \in 0..2 : Setup(k)
        \/ \E h \in Handles :
          \/ Enter(h, TRUE) \/ Enter(h, FALSE) \/ Exit(h)
          \/ \E u \in Pay : AddOk(h, u) \/ AddNo(h, u) \/ RepOk(h, u) \/ RepNo(h, u) \/ RepHalf(h, u)
          \/ \E t \in Types : RemOk(h, t) \/ RemNo(h, t)
Spec == Init /\ [][Next]_vars

-----------------------------------------------------------------------------
Fresh(h) == hs[h].open /\ hs[h].tab = disk.table

\* with an up-to-date copy the two-handle operators ARE the single-object ones
InvRefines ==
  \A h \in Handles : (clean /\ Fresh(h)) =>
    /\ \A u \in Pay : AddCauses(hs[h].tab, Blk(u)) = {} =>
          LET r == HAdd(hs[h].tab, disk, Blk(u)) IN r.d = AddFile(disk, Blk(u)) /\ r.m = r.d.table
    /\ \A u \in Pay : RepCauses(hs[h].tab, Blk(u)) = {} =>
          LET r == HReplace(hs[h].tab, disk, Blk(u)) IN r.ok /\ r.d = ReplaceFile(disk, Blk(u)) /\ r.m = r.d.table
    /\ \A t \in Types : RemCauses(hs[h].tab, t) = {} =>
          LET r == HRemove(hs[h].tab, disk, t) IN r.d = RemoveFile(disk, t) /\ r.m = r.d.table

\* a call through h leaves every other handle's copy alone
InvIsolation == [][\A h \in Handles : (hs'[h].tab # hs[h].tab /\ hs[h].open /\ hs'[h].open) =>
                      \A g \in Handles \ {h} : hs'[g] = hs[g]]_vars

\* as long as every mutation went through an up-to-date copy, the file is sound
InvCleanSound == clean => (RangesOK(disk) /\ NoOverlap(disk) /\ UnusedZero(disk) /\ UniqueTypes(disk)
                           /\ FileLen(disk) >= TableEnd(disk))

\* state constraint of the bounded models (stale copies can make files grow without end)
MaxData == 7
\* (and offsets in front of the end of the table - block bytes inside the table - are outside what
\* the data region of TdfFile describes: such states are not explored further)
Bound == /\ DLen(disk.data) <= MaxData
         /\ \A i \in 1..N : disk.table[i].offset \in TE..(TE + MaxData)
         /\ \A h \in Handles : hs[h].open => \A i \in 1..N : hs[h].tab[i].offset \in TE..(TE + MaxData)

\* NOT an invariant: overlapping write contexts corrupt the file (checked separately; the
\* counterexample is the behaviour replayed on the real library)
LostUpdate == RangesOK(disk) /\ NoOverlap(disk) /\ UniqueTypes(disk)
=============================================================================
