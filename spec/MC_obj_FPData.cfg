SPECIFICATION Spec
CONSTANTS
  Kind = "FPData"
  NI = 2
  MaxItems = 3
  MaxChan = 3
  Labels = {1, 2}
  Chans = {0, 2}
  Edits = FALSE
  AutoRule = "len"
INVARIANT InvConforms
INVARIANT InvAligned
INVARIANT InvDisjoint
CHECK_DEADLOCK FALSE
