------------------------------ MODULE TdfPathsCore ------------------------------
(***************************************************************************)
(* Creating, copying and opening files (C17): several paths, each absent,  *)
(* a non-TDF file, an empty file or a TDF container.  Contents are opaque  *)
(* content ids (two files are byte-identical iff their ids are equal).     *)
(*                                                                         *)
(*   New(p)      Tdf.new(p)                                                *)
(*   Copy(p, q)  Tdf(p).copy(q)                                            *)
(*   Open(p)     Tdf(p)                       (constructor only)           *)
(*   Enter(p)    with Tdf(p): ...             (parses the header)          *)
(*   Read(p)     Tdf(p).blocks                (implicit context)           *)
(*   Mutate(p)   add a block in a write context, file p only               *)
(*   MCopy(p, q) mutate p and copy it to q inside the same write context   *)
(*                                                                         *)
(* Expect(fs, o) is the set of allowed [fs', res] pairs, res being "ok",   *)
(* "exists" (FileExistsError), "refused" (any exception).  fresh content   *)
(* ids are left open ("any id different from ...") through predicates.     *)
(***************************************************************************)
EXTENDS Integers, FiniteSets, TLC

CONSTANTS Paths

Absent == [kind |-> "absent", cid |-> 0]
Empty  == [kind |-> "empty", cid |-> 0]
Exists(x) == x.kind # "absent"

\* is  t  an allowed state of the paths after call o in state fs, with result res?
Allowed(fs, o, t, res) ==
  CASE o.op = "new" ->
         IF Exists(fs[o.p])
         THEN res = "exists" /\ t = fs                                   \* never clobber
         ELSE /\ res = "ok"
              /\ t[o.p].kind = "tdf" /\ t[o.p].cid = 1                   \* cid 1 = the canonical empty container
              /\ \A q \in Paths \ {o.p} : t[q] = fs[q]
    [] o.op = "copy" ->
         IF ~Exists(fs[o.p]) THEN res = "refused" /\ t = fs              \* no source: Tdf(p) itself fails
         ELSE IF Exists(fs[o.q])
         THEN res = "exists" /\ t = fs                                   \* never clobber (also when q = p)
         ELSE /\ res = "ok"
              /\ t[o.q] = fs[o.p]                                        \* byte-identical
              /\ \A q \in Paths \ {o.q} : t[q] = fs[q]
    [] o.op = "open" ->
         /\ t = fs
         /\ res = IF Exists(fs[o.p]) THEN "ok" ELSE "refused"
    [] o.op \in {"enter", "read"} ->
         /\ t = fs
         /\ res = IF fs[o.p].kind = "tdf" THEN "ok" ELSE "refused"
    [] o.op = "mcopy" ->
         \* mutate p and copy it to q while the write context on p is still open: the copy must
         \* hold everything the open object has written (nothing pending in a buffer)
         IF fs[o.p].kind # "tdf" THEN res = "refused" /\ t = fs
         ELSE /\ t[o.p].kind = "tdf" /\ t[o.p].cid # fs[o.p].cid
              /\ IF Exists(fs[o.q])
                 THEN res = "exists" /\ \A q \in Paths \ {o.p} : t[q] = fs[q]
                 ELSE res = "ok" /\ t[o.q] = t[o.p] /\ \A q \in Paths \ {o.p, o.q} : t[q] = fs[q]
    [] o.op = "mutate" ->
         IF fs[o.p].kind # "tdf" THEN res = "refused" /\ t = fs
         ELSE /\ res = "ok"
              /\ t[o.p].kind = "tdf" /\ t[o.p].cid # fs[o.p].cid
              /\ \A q \in Paths \ {o.p} : t[q] = fs[q]                   \* nobody else changes (independence)
=============================================================================
