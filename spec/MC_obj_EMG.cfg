SPECIFICATION Spec
CONSTANTS
  Kind = "EMG"
  NI = 2
  MaxItems = 2
  MaxChan = 3
  Labels = {1, 2}
  Chans = {0, 1, 2}
  Edits = FALSE
  AutoRule = "max"
INVARIANT InvConforms
INVARIANT InvAligned
INVARIANT InvDisjoint
CHECK_DEADLOCK FALSE
