----------------------------- MODULE TdfCodec -----------------------------
(***************************************************************************)
(* Interpreter of the layout table: Encode (abstract value -> tokens),     *)
(* Decode (tokens -> abstract value), Size, the run-length code of         *)
(* presence masks, the don't-care parts of an encoding and single-site     *)
(* mutations of abstract values.                                           *)
(*                                                                         *)
(* A token is [ty, v, w]: w bytes holding value v of primitive type ty     *)
(* (i16 u16 i32 u32 f32 f64), or ty = "str" (v = text id, written as text, *)
(* NUL, zeros up to w; `tail` = what follows the terminator), "pad"        *)
(* (w reserved bytes, v = what they hold), "raw" (w fixed bytes).          *)
(* lib/verif/pack.py turns tokens into bytes.                              *)
(*                                                                         *)
(* Abstract values are records; floats, integer payloads and texts are     *)
(* opaque ids; a frame is a tuple of `per` ids, a missing frame is <<>>.   *)
(***************************************************************************)
EXTENDS TdfLayout, FiniteSets, SequencesExt, TLC

\* p says how the harness turns v into a concrete value: "n" = the number itself,
\* "f" = float id, otherwise the name of an integer pool (TdfLayout iid / iarr / varr)
Tok(ty, v)      == [ty |-> ty, v |-> v, w |-> Width(ty), p |-> "n"]
TokF(ty, v)     == [ty |-> ty, v |-> v, w |-> Width(ty), p |-> "f"]
TokI(ty, v, pl) == [ty |-> ty, v |-> v, w |-> Width(ty), p |-> pl]
PadTok(n)       == [ty |-> "pad", v |-> 0, w |-> n, p |-> "n"]
StrTok(w, s)    == [ty |-> "str", v |-> s, w |-> w, p |-> "t", tail |-> 0]
RawTok(n, s)    == [ty |-> "raw", v |-> s, w |-> n, p |-> "n"]

\* ------------------------------------------------------------ run-length code
\* mask: Seq(BOOLEAN); runs: Seq of <<start (0-based), length>>
RECURSIVE RunsFrom(_, _)
RunsFrom(m, i) ==
  IF i > Len(m) THEN <<>>
  ELSE IF ~m[i] THEN RunsFrom(m, i + 1)
  ELSE LET j == CHOOSE j \in i..Len(m) : (\A k \in i..j : m[k]) /\ (j = Len(m) \/ ~m[j + 1])
       IN << <<i - 1, j - i + 1>> >> \o RunsFrom(m, j + 1)
Runs(m) == RunsFrom(m, 1)

Present(fr) == fr # <<>>
MaskOf(frames) == [i \in 1..Len(frames) |-> Present(frames[i])]

\* what C05 demands of a run table for mask m
RunsWellFormed(m, rs) ==
  /\ \A r \in 1..Len(rs) : rs[r][2] >= 1 /\ rs[r][1] >= 0 /\ rs[r][1] + rs[r][2] <= Len(m)
  /\ \A r \in 1..(Len(rs) - 1) : rs[r][1] + rs[r][2] < rs[r + 1][1]          \* increasing, not touching
  /\ \A i \in 1..Len(m) : m[i] <=> \E r \in 1..Len(rs) : rs[r][1] < i /\ i <= rs[r][1] + rs[r][2]

\* ------------------------------------------------------------ encode
RECURSIVE EncS(_, _, _)
RECURSIVE EncF(_, _, _)

EncRle(f, v) ==
  LET frames == v[f.name]
      rs == Runs(MaskOf(frames)) IN
  \* [count of runs] [pad] [start, length]* [samples of every run]; the tokens of a
  \* run-length coded region carry g = "rle" so that the harness can find it
  LET ts == << Tok("i32", Len(rs)), PadTok(4) >>
            \o FlattenSeq([r \in 1..Len(rs) |-> << Tok("i32", rs[r][1]), Tok("i32", rs[r][2]) >>])
            \o FlattenSeq([r \in 1..Len(rs) |-> FlattenSeq([q \in 1..rs[r][2] |->
                  [c \in 1..f.per |-> TokF(f.ty, frames[rs[r][1] + q][c])]])])
  IN [j \in 1..Len(ts) |-> ts[j] @@ [g |-> "rle"]]

\* data[frame][cam] = sequence of points <<x, y>>; <<>> = no points (None)
EncPck(f, v) ==
  LET data == v[f.name]
      nF == Len(data)
      nC == Len(v[f.cams]) IN
  FlattenSeq([c \in 1..nC |-> [fr \in 1..nF |-> Tok("u16", Len(data[fr][c]))]])
  \o FlattenSeq([fr \in 1..nF |-> FlattenSeq([c \in 1..nC |->
        FlattenSeq([p \in 1..Len(data[fr][c]) |-> << TokF("f32", data[fr][c][p][1]), TokF("f32", data[fr][c][p][2]) >>])])])

EncList(item, xs, fmt) == FlattenSeq([i \in 1..Len(xs) |-> EncS(Layout[item], xs[i], fmt)])

EncF(f, v, fmt) ==
  CASE f.k = "int"   -> << Tok(f.ty, v[f.name] - f.bias) >>
    [] f.k = "iid"   -> << TokI(f.ty, v[f.name], f.pool) >>
    [] f.k = "flt"   -> << TokF(f.ty, v[f.name]) >>
    [] f.k = "enum"  -> << Tok(f.ty, v[f.name]) >>
    [] f.k = "count" -> << Tok(f.ty, Len(v[f.of])) >>
    [] f.k = "arr"   -> [i \in 1..f.n |-> TokF(f.ty, v[f.name][i])]
    [] f.k = "iarr"  -> [i \in 1..f.n |-> TokI(f.ty, v[f.name][i], f.pool)]
    [] f.k = "seq"   -> [i \in 1..Len(v[f.name]) |-> TokF(f.ty, v[f.name][i])]
    [] f.k = "varr"  -> [i \in 1..Len(v[f.name]) |-> TokI(f.ty, v[f.name][i], f.pool)]
    [] f.k = "str"   -> << StrTok(f.w, v[f.name]) >>
    [] f.k = "pad"   -> << PadTok(f.n) >>
    [] f.k = "raw"   -> << RawTok(f.n, v[f.name]) >>
    [] f.k = "list"  -> EncList(f.item, v[f.name], fmt)
    [] f.k = "case"  -> EncList(f.alts[fmt], v[f.name], fmt)
    [] f.k = "rle"   -> EncRle(f, v)
    [] f.k = "cond"  -> IF fmt \in f.in THEN EncS(f.body, v, fmt) ELSE <<>>
    [] f.k = "pck"   -> EncPck(f, v)

EncS(fs, v, fmt) == IF fs = <<>> THEN <<>> ELSE EncF(Head(fs), v, fmt) \o EncS(Tail(fs), v, fmt)

Encode(struct, v, fmt) == EncS(Layout[struct], v, fmt)

RECURSIVE SizeFrom(_, _)
SizeFrom(toks, i) == IF i > Len(toks) THEN 0 ELSE toks[i].w + SizeFrom(toks, i + 1)
Size(toks) == LET S[i \in 0..Len(toks)] == IF i = 0 THEN 0 ELSE S[i - 1] + toks[i].w IN S[Len(toks)]

\* ------------------------------------------------------------ size from shape
\* The size of an encoding depends on the SHAPE of the value only.  A shape is an
\* abstract value in which a run-length coded field holds its presence mask (a
\* sequence of 0 / 1), a pck field holds the matrix of point counts [frame][cam],
\* and every other sequence only matters through its length.  This is what TLC
\* evaluates on observations of real-sized blocks (TdfCodecObs), where masks have
\* thousands of frames: runs are found by set comprehension, not recursion.
RunStarts(m) == {i \in 1..Len(m) : m[i] = 1 /\ (i = 1 \/ m[i - 1] = 0)}
RunEnds(m)   == {i \in 1..Len(m) : m[i] = 1 /\ (i = Len(m) \/ m[i + 1] = 0)}
\* set of <<start (0-based), length>>
RunsSet(m)   == {<<s - 1, (CHOOSE e \in RunEnds(m) : e >= s /\ \A x \in RunEnds(m) : x >= s => e <= x) - s + 1>> : s \in RunStarts(m)}
Ones(m)      == Cardinality({i \in 1..Len(m) : m[i] = 1})
SumSeq(xs)   == FoldLeft(LAMBDA a, x : a + x, 0, xs)     \* iterative (SequencesExt), fine for thousands of elements

RECURSIVE SizeS(_, _, _)
RECURSIVE SizeF(_, _, _)
SizeF(f, v, fmt) ==
  CASE f.k \in {"int", "iid", "flt", "enum", "count"} -> Width(f.ty)
    [] f.k \in {"arr", "iarr"} -> f.n * Width(f.ty)
    [] f.k \in {"seq", "varr"} -> Len(v[f.name]) * Width(f.ty)
    [] f.k = "str" -> f.w
    [] f.k = "pad" -> f.n
    [] f.k = "raw" -> f.n
    [] f.k = "list" -> SumSeq([i \in 1..Len(v[f.name]) |-> SizeS(Layout[f.item], v[f.name][i], fmt)])
    [] f.k = "case" -> SumSeq([i \in 1..Len(v[f.name]) |-> SizeS(Layout[f.alts[fmt]], v[f.name][i], fmt)])
    [] f.k = "rle" -> 4 + 4 + 8 * Cardinality(RunStarts(v[f.name])) + f.per * Width(f.ty) * Ones(v[f.name])
    [] f.k = "cond" -> IF fmt \in f.in THEN SizeS(f.body, v, fmt) ELSE 0
    [] f.k = "pck" -> LET cm == v[f.name] IN
                      SumSeq([fr \in 1..Len(cm) |-> SumSeq([c \in 1..Len(cm[fr]) |-> 2 + 8 * cm[fr][c]])])
SizeS(fs, v, fmt) == IF fs = <<>> THEN 0 ELSE SizeF(Head(fs), v, fmt) + SizeS(Tail(fs), v, fmt)
ShapeSize(struct, v, fmt) == SizeS(Layout[struct], v, fmt)

\* the shape of an abstract value
RECURSIVE ShapeOfS(_, _, _)
ShapeOfF(f, v, fmt) ==
  CASE f.k = "rle" -> [n \in {f.name} |-> [i \in 1..Len(v[f.name]) |-> IF Present(v[f.name][i]) THEN 1 ELSE 0]]
    [] f.k = "pck" -> [n \in {f.name} |-> [fr \in 1..Len(v[f.name]) |-> [c \in 1..Len(v[f.name][fr]) |-> Len(v[f.name][fr][c])]]]
    [] f.k = "list" -> [n \in {f.name} |-> [i \in 1..Len(v[f.name]) |-> ShapeOfS(Layout[f.item], v[f.name][i], fmt)]]
    [] f.k = "case" -> [n \in {f.name} |-> [i \in 1..Len(v[f.name]) |-> ShapeOfS(Layout[f.alts[fmt]], v[f.name][i], fmt)]]
    [] f.k = "cond" -> IF fmt \in f.in THEN ShapeOfS(f.body, v, fmt) ELSE [n \in {} |-> 0]
    [] f.k \in {"pad", "count"} -> [n \in {} |-> 0]
    [] OTHER -> [n \in {f.name} |-> v[f.name]]
ShapeOfS(fs, v, fmt) == IF fs = <<>> THEN [n \in {} |-> 0] ELSE ShapeOfF(Head(fs), v, fmt) @@ ShapeOfS(Tail(fs), v, fmt)
ShapeOf(struct, v, fmt) == ShapeOfS(Layout[struct], v, fmt)

\* ------------------------------------------------------------ decode
Upd(f, k, x) == [n \in (DOMAIN f) \cup {k} |-> IF n = k THEN x ELSE f[n]]
NoFields == [n \in {} |-> 0]

RECURSIVE DecS(_, _, _, _, _)
RECURSIVE DecF(_, _, _, _, _)
RECURSIVE DecList(_, _, _, _, _, _)

\* st = [v: fields so far, i: next token, cnt: counts read so far]
DecRle(f, toks, st, nFrames) ==
  LET nseg == toks[st.i].v
      tab  == [r \in 1..nseg |-> << toks[st.i + 2 * r].v, toks[st.i + 2 * r + 1].v >>]
      base == st.i + 2 + 2 * nseg
      Off[r \in 0..nseg] == IF r = 0 THEN 0 ELSE Off[r - 1] + tab[r][2] * f.per
      frames == [q \in 1..nFrames |->
                   IF \E r \in 1..nseg : tab[r][1] < q /\ q <= tab[r][1] + tab[r][2]
                   THEN LET r == CHOOSE r \in 1..nseg : tab[r][1] < q /\ q <= tab[r][1] + tab[r][2]
                            o == base + Off[r - 1] + (q - tab[r][1] - 1) * f.per
                        IN [c \in 1..f.per |-> toks[o + c - 1].v]
                   ELSE <<>>]
  IN [v |-> Upd(st.v, f.name, frames), i |-> base + Off[nseg], cnt |-> st.cnt]

DecPck(f, toks, st) ==
  LET nC == st.cnt[f.cams]
      nF == st.v[f.nf]
      cntAt(c, fr) == toks[st.i + (c - 1) * nF + (fr - 1)].v
      base == st.i + nC * nF
      \* number of points before cell (fr, c) in frame-major order
      RECURSIVE Before(_, _)
      Before(fr, c) == IF fr = 1 /\ c = 1 THEN 0
                       ELSE IF c = 1 THEN Before(fr - 1, nC) + cntAt(nC, fr - 1)
                       ELSE Before(fr, c - 1) + cntAt(c - 1, fr)
      total == IF nC = 0 \/ nF = 0 THEN 0 ELSE Before(nF, nC) + cntAt(nC, nF)
      data == [fr \in 1..nF |-> [c \in 1..nC |->
                 [p \in 1..cntAt(c, fr) |-> << toks[base + 2 * (Before(fr, c) + p - 1)].v,
                                               toks[base + 2 * (Before(fr, c) + p - 1) + 1].v >>]]]
  IN [v |-> Upd(st.v, f.name, data), i |-> base + 2 * total, cnt |-> st.cnt]

DecList(item, toks, i, n, fmt, nf) ==
  IF n = 0 THEN [vs |-> <<>>, i |-> i]
  ELSE LET one  == DecS(Layout[item], toks, [v |-> NoFields, i |-> i, cnt |-> NoFields], fmt, nf)
           rest == DecList(item, toks, one.i, n - 1, fmt, nf)
       IN [vs |-> <<one.v>> \o rest.vs, i |-> rest.i]

\* fields a skipped conditional part leaves empty
RECURSIVE Defaults(_, _)
Defaults(fs, v) == IF fs = <<>> THEN v
                   ELSE LET f == Head(fs) IN
                        Defaults(Tail(fs), IF f.k = "list" THEN Upd(v, f.name, <<>>) ELSE v)

DecF(f, toks, st, fmt, nf) ==
  CASE f.k = "int"   -> [st EXCEPT !.v = Upd(st.v, f.name, toks[st.i].v + f.bias), !.i = st.i + 1]
    [] f.k \in {"iid", "flt", "enum", "str", "raw"} -> [st EXCEPT !.v = Upd(st.v, f.name, toks[st.i].v), !.i = st.i + 1]
    [] f.k = "count" -> [st EXCEPT !.cnt = Upd(st.cnt, f.of, toks[st.i].v), !.i = st.i + 1]
    [] f.k \in {"arr", "iarr"} -> [st EXCEPT !.v = Upd(st.v, f.name, [j \in 1..f.n |-> toks[st.i + j - 1].v]), !.i = st.i + f.n]
    [] f.k = "seq"   -> LET n == st.cnt[f.name] IN
                        [st EXCEPT !.v = Upd(st.v, f.name, [j \in 1..n |-> toks[st.i + j - 1].v]), !.i = st.i + n]
    [] f.k = "varr"  -> LET n == st.cnt[f.of] IN
                        [st EXCEPT !.v = Upd(st.v, f.name, [j \in 1..n |-> toks[st.i + j - 1].v]), !.i = st.i + n]
    [] f.k = "pad"   -> [st EXCEPT !.i = st.i + 1]          \* content ignored
    [] f.k \in {"list", "case"} ->
         LET item == IF f.k = "list" THEN f.item ELSE f.alts[fmt]
             nfr  == IF f.k = "list" /\ f.nf # "" THEN st.v[f.nf] ELSE 0
             r    == DecList(item, toks, st.i, st.cnt[f.name], fmt, nfr)
         IN [st EXCEPT !.v = Upd(st.v, f.name, r.vs), !.i = r.i]
    [] f.k = "rle"   -> DecRle(f, toks, st, nf)
    [] f.k = "cond"  -> IF fmt \in f.in THEN DecS(f.body, toks, st, fmt, nf)
                        ELSE [st EXCEPT !.v = Defaults(f.body, st.v)]
    [] f.k = "pck"   -> DecPck(f, toks, st)

DecS(fs, toks, st, fmt, nf) ==
  IF fs = <<>> THEN st ELSE DecS(Tail(fs), toks, DecF(Head(fs), toks, st, fmt, nf), fmt, nf)

\* [v |-> decoded value, used |-> tokens consumed]
Decode(struct, toks, fmt) ==
  LET r == DecS(Layout[struct], toks, [v |-> NoFields, i |-> 1, cnt |-> NoFields], fmt, 0)
  IN [v |-> r.v, used |-> r.i - 1]

\* ------------------------------------------------------------ don't-care content
\* the same encoding with every reserved byte and every after-terminator byte
\* replaced by garbage g
Scramble(toks, g) == [j \in 1..Len(toks) |->
                        IF toks[j].ty = "pad" THEN [toks[j] EXCEPT !.v = g]
                        ELSE IF toks[j].ty = "str" THEN [toks[j] EXCEPT !.tail = g]
                        ELSE toks[j]]
\* canonical form: what the writer must produce in those places
Canonical(toks) == \A j \in 1..Len(toks) :
                      /\ toks[j].ty = "pad" => toks[j].v = 0
                      /\ toks[j].ty = "str" => toks[j].tail = 0

\* ------------------------------------------------------------ single-site mutations (C14)
\* every value that differs from v in exactly one stored site: a scalar, one
\* array element, a text, one sample, presence of one frame, an element
\* removed from or appended to a list
OtherId(x) == x + 1
RECURSIVE MutS(_, _, _, _)
RECURSIVE MutItems(_, _, _, _)

MutSeqAt(xs, i, y) == [xs EXCEPT ![i] = y]
FirstLast(n) == IF n = 0 THEN {} ELSE {1, n}

MutFrames(frames, per) ==
  LET n == Len(frames) IN
  \* one sample of a present frame changed
  {MutSeqAt(frames, i, MutSeqAt(frames[i], c, OtherId(frames[i][c]))) :
      i \in {j \in 1..n : Present(frames[j])}, c \in {1, per}}
  \* a present frame goes missing / a missing frame appears
  \cup {MutSeqAt(frames, i, IF Present(frames[i]) THEN <<>> ELSE [c \in 1..per |-> 900 + c]) : i \in 1..n}

MutItems(item, xs, fmt, nf) ==
  LET n == Len(xs) IN
  (IF n > 0 THEN {SubSeq(xs, 1, n - 1)} ELSE {})                                   \* element removed
  \cup (IF n > 0 THEN {Append(xs, xs[n])} ELSE {})                                  \* element appended
  \cup UNION {{MutSeqAt(xs, i, y) : y \in MutS(Layout[item], xs[i], fmt, nf)} : i \in FirstLast(n)}

MutF(f, v, fmt, nf) ==
  CASE f.k \in {"iid", "flt"} -> {Upd(v, f.name, OtherId(v[f.name]))}
    [] f.k = "enum" -> {Upd(v, f.name, c) : c \in f.codes \ {v[f.name]}}
    [] f.k = "str"  -> {Upd(v, f.name, OtherId(v[f.name]))}
    [] f.k \in {"arr", "iarr"} -> {Upd(v, f.name, MutSeqAt(v[f.name], i, OtherId(v[f.name][i]))) : i \in {1, f.n}}
    [] f.k \in {"seq", "varr"} -> {Upd(v, f.name, MutSeqAt(v[f.name], i, OtherId(v[f.name][i]))) : i \in FirstLast(Len(v[f.name]))}
                                  \cup (IF f.k = "seq" /\ Len(v[f.name]) > 0
                                        THEN {Upd(v, f.name, SubSeq(v[f.name], 1, Len(v[f.name]) - 1))} ELSE {})
    [] f.k = "list" -> {Upd(v, f.name, y) : y \in MutItems(f.item, v[f.name], fmt, nf)}
    [] f.k = "case" -> {Upd(v, f.name, y) : y \in MutItems(f.alts[fmt], v[f.name], fmt, nf)}
    [] f.k = "rle"  -> {Upd(v, f.name, y) : y \in MutFrames(v[f.name], f.per)}
    [] f.k = "cond" -> IF fmt \in f.in THEN MutS(f.body, v, fmt, nf) ELSE {}
    [] f.k = "pck"  -> LET data  == v[f.name]
                           cells == {<<fr, c>> : fr \in 1..Len(data), c \in 1..(IF Len(data) = 0 THEN 0 ELSE Len(data[1]))}
                       IN \* a cell loses its first point / an empty cell gets one; one coordinate changes
                          {Upd(v, f.name, [data EXCEPT ![x[1]][x[2]] = IF @ = <<>> THEN << <<901, 902>> >> ELSE Tail(@)]) : x \in cells}
                          \cup {Upd(v, f.name, [data EXCEPT ![x[1]][x[2]][1][2] = OtherId(@)])
                                   : x \in {y \in cells : data[y[1]][y[2]] # <<>>}}
    [] OTHER -> {}          \* int (frame counts: changing them invalidates the block), count, pad, raw

MutS(fs, v, fmt, nf) == IF fs = <<>> THEN {} ELSE MutF(Head(fs), v, fmt, nf) \cup MutS(Tail(fs), v, fmt, nf)

\* keep per-element arrays (channel maps) as long as the list they describe
RECURSIVE Sync(_, _)
Sync(fs, v) ==
  IF fs = <<>> THEN v
  ELSE LET f == Head(fs) IN
       IF f.k = "varr" /\ f.of # f.name /\ Len(v[f.name]) # Len(v[f.of])
       THEN LET n == Len(v[f.of])  a == v[f.name] IN
            Sync(Tail(fs), Upd(v, f.name, IF Len(a) > n THEN SubSeq(a, 1, n)
                                          ELSE a \o [i \in 1..(n - Len(a)) |-> 990 + i]))
       ELSE Sync(Tail(fs), v)

Mutants(struct, v, fmt) == {Sync(Layout[struct], m) : m \in MutS(Layout[struct], v, fmt, 0)}
=============================================================================
