SPECIFICATION Spec
CONSTRAINT Judge
CHECK_DEADLOCK FALSE
