----------------------------- MODULE TdfLayout -----------------------------
(***************************************************************************)
(* The TDF on-disk layout as DATA: struct name -> sequence of field         *)
(* descriptors.  Everything is little endian.  TdfCodec.tla interprets the *)
(* table (encode, decode, size); lib/verif/layout_interp.py interprets the *)
(* JSON export of the same table for real-sized data.                      *)
(*                                                                         *)
(* descriptor kinds                                                        *)
(*   int   [ty, name, bias]  structural integer; on disk  v - bias         *)
(*   iid   [ty, name, pool]  integer payload (opaque id, concretised from  *)
(*                           the value pool of that range)                 *)
(*   flt   [ty, name]        float payload (opaque id)                     *)
(*   enum  [ty, name, codes] integer code from a set                       *)
(*   count [ty, of]          number of elements of list / seq field `of`   *)
(*   arr   [ty, n, name]     n floats (ids)                                *)
(*   iarr  [ty, n, name, pool]  n integer payloads                         *)
(*   seq   [ty, name]        as many floats as its own count said          *)
(*   varr  [ty, of, name, pool] one integer payload per element of `of`    *)
(*   str   [w, name]         fixed width cp1252 text, NUL terminated, zero *)
(*                           padded                                        *)
(*   pad   [n]               reserved bytes: zeros on write, ignored on    *)
(*                           read                                          *)
(*   list  [name, item, nf]  repeated struct; nf names the field holding   *)
(*                           the frame count the items' rle fields need    *)
(*   rle   [name, ty, per]   run-length coded frames                       *)
(*   cond  [on, in, body]    body present iff value of `on` is in `in`     *)
(*   case  [on, name, alts]  list whose item struct depends on `on`        *)
(*   pck   [name, cams, nf]  Data2D packed points                          *)
(*   raw   [n, name]         fixed bytes (the file signature)              *)
(***************************************************************************)
EXTENDS Integers, Sequences

FInt(ty, name)          == [k |-> "int", ty |-> ty, name |-> name, bias |-> 0]
FIntB(ty, name, bias)   == [k |-> "int", ty |-> ty, name |-> name, bias |-> bias]
FIid(ty, name, pool)    == [k |-> "iid", ty |-> ty, name |-> name, pool |-> pool]
FFlt(ty, name)          == [k |-> "flt", ty |-> ty, name |-> name]
FEnum(ty, name, codes)  == [k |-> "enum", ty |-> ty, name |-> name, codes |-> codes]
FCount(ty, of)          == [k |-> "count", ty |-> ty, of |-> of]
FArr(ty, n, name)       == [k |-> "arr", ty |-> ty, n |-> n, name |-> name]
FIArr(ty, n, name, pool) == [k |-> "iarr", ty |-> ty, n |-> n, name |-> name, pool |-> pool]
FSeqF(ty, name)         == [k |-> "seq", ty |-> ty, name |-> name]
FVArr(ty, of, name, pool) == [k |-> "varr", ty |-> ty, of |-> of, name |-> name, pool |-> pool]
FStr(w, name)           == [k |-> "str", w |-> w, name |-> name]
FPad(n)                 == [k |-> "pad", n |-> n]
FList(name, item, nf)   == [k |-> "list", name |-> name, item |-> item, nf |-> nf]
FRle(name, ty, per)     == [k |-> "rle", name |-> name, ty |-> ty, per |-> per]
FCond(on, in, body)     == [k |-> "cond", on |-> on, in |-> in, body |-> body]
FCase(on, name, alts)   == [k |-> "case", on |-> on, name |-> name, alts |-> alts]
FPck(name, cams, nf)    == [k |-> "pck", name |-> name, cams |-> cams, nf |-> nf]
FRaw(n, name)           == [k |-> "raw", n |-> n, name |-> name]

ViewPort == << FIArr("i32", 2, "vp_origin", "i32"), FIArr("i32", 2, "vp_size", "i32") >>

Layout == [
  Header |-> <<
    FRaw(16, "signature"), FIid("u32", "version", "u31"), FIid("i32", "nEntries", "u31"), FPad(8),
    FIid("i32", "cdate", "u31"), FIid("i32", "mdate", "u31"), FIid("i32", "adate", "u31"), FPad(20) >>,
  Entry |-> <<
    FEnum("u32", "type", 0..16), FIid("u32", "format", "u31"), FIid("i32", "offset", "u31"), FIid("i32", "size", "u31"),
    FIid("i32", "cdate", "u31"), FIid("i32", "mdate", "u31"), FIid("i32", "adate", "u31"), FPad(4), FStr(256, "comment") >>,

  Data3D |-> <<
    FInt("i32", "nFrames"), FIid("i32", "frequency", "i32"), FFlt("f32", "startTime"), FCount("u32", "tracks"),
    FArr("f32", 3, "volume"), FArr("f32", 9, "rotationMatrix"), FArr("f32", 3, "translationVector"),
    FEnum("u32", "flag", {0, 1}),
    FCond("format", {1}, << FCount("i32", "links"), FPad(4), FList("links", "Link", "") >>),
    FList("tracks", "MarkerTrack", "nFrames") >>,
  Link |-> << FIid("u32", "a", "u32"), FIid("u32", "b", "u32") >>,
  MarkerTrack |-> << FStr(256, "label"), FRle("frames", "f32", 3) >>,

  EMG |-> <<
    FCount("i32", "signals"), FIid("i32", "frequency", "i32"), FFlt("f32", "startTime"),
    FIntB("i32", "nSamples", 49), FVArr("i16", "signals", "chans", "i16"),
    FList("signals", "EMGTrack", "nSamples") >>,
  EMGTrack |-> << FStr(256, "label"), FRle("frames", "f32", 1) >>,

  ForceTorque3D |-> <<
    FCount("u32", "tracks"), FIid("i32", "frequency", "i32"), FFlt("f32", "startTime"), FInt("i32", "nFrames"),
    FArr("f32", 3, "volume"), FArr("f32", 9, "rotationMatrix"), FArr("f32", 3, "translationVector"), FPad(4),
    FList("tracks", "ForceTorqueTrack", "nFrames") >>,
  ForceTorqueTrack |-> << FStr(256, "label"), FRle("frames", "f32", 9) >>,

  ForcePlatformsData |-> <<
    FCount("i32", "platforms"), FIid("i32", "frequency", "i32"), FFlt("f32", "startTime"), FInt("i32", "nFrames"),
    FVArr("u16", "platforms", "chans", "u16"),
    FList("platforms", "ForcePlatformData", "nFrames") >>,
  ForcePlatformData |-> << FRle("frames", "f32", 6) >>,

  ForcePlatformsCalibration |-> <<
    FCount("i32", "platforms"), FPad(4), FVArr("i16", "platforms", "chans", "i16"),
    FList("platforms", "ForcePlatformInfo", "") >>,
  ForcePlatformInfo |-> << FStr(256, "label"), FArr("f32", 2, "size"), FArr("f32", 12, "position"), FPad(256) >>,

  Data2D |-> <<
    FCount("i32", "camMap"), FInt("i32", "nFrames"), FIid("i32", "frequency", "i32"), FFlt("f32", "startTime"),
    FEnum("u32", "flags", {0, 1}), FVArr("i16", "camMap", "camMap", "u15"),
    FPck("data", "camMap", "nFrames") >>,

  CalibrationData |-> <<
    FCount("i32", "cams"), FEnum("i32", "distorsion_model", {0, 1, 2, 3}),
    FArr("f32", 3, "size"), FArr("f32", 9, "rotationMatrix"), FArr("f32", 3, "translationVector"),
    FVArr("i16", "cams", "chans", "i16"),
    FCase("format", "cams", [f \in {1, 2} |-> IF f = 1 THEN "SeelabCamera" ELSE "BTSCamera"]) >>,
  SeelabCamera |-> <<
    FArr("f64", 9, "rotation_matrix"), FArr("f64", 3, "translation_vector"), FArr("f64", 2, "focus"),
    FArr("f64", 2, "optical_center"), FArr("f64", 2, "radial_distortion"), FArr("f64", 2, "decentering"),
    FArr("f64", 2, "thin_prism") >> \o ViewPort,
  BTSCamera |-> <<
    FArr("f64", 9, "rotation_matrix"), FArr("f64", 3, "translation_vector"), FArr("f64", 2, "focus"),
    FArr("f64", 2, "optical_center"), FArr("f64", 70, "x_distortion_coefficients"),
    FArr("f64", 70, "y_distortion_coefficients") >> \o ViewPort,

  OpticalSetup |-> << FCount("i32", "channels"), FPad(4), FList("channels", "OpticalChannel", "") >>,
  OpticalChannel |-> <<
    FIid("i32", "logical_camera_index", "i32"), FPad(4), FStr(32, "lens_name"), FStr(32, "camera_type"),
    FStr(32, "camera_name") >> \o ViewPort,

  Events |-> << FCount("i32", "events"), FFlt("f32", "startTime"), FList("events", "Event", "") >>,
  Event |-> << FStr(256, "label"), FEnum("u32", "type", {0, 1}), FCount("u32", "values"), FSeqF("f32", "values") >>
]

Width(ty) == CASE ty = "i16" -> 2 [] ty = "u16" -> 2 [] ty = "i32" -> 4 [] ty = "u32" -> 4
               [] ty = "f32" -> 4 [] ty = "f64" -> 8

\* block type code -> (struct, writable formats)
BlockStructs == [
  Data3D |-> [type |-> 5, formats |-> {1, 2}],
  EMG |-> [type |-> 11, formats |-> {1}],
  ForceTorque3D |-> [type |-> 12, formats |-> {1}],
  ForcePlatformsData |-> [type |-> 9, formats |-> {1}],
  ForcePlatformsCalibration |-> [type |-> 7, formats |-> {2}],
  Data2D |-> [type |-> 4, formats |-> {2}],
  CalibrationData |-> [type |-> 2, formats |-> {1, 2}],
  OpticalSetup |-> [type |-> 6, formats |-> {1}],
  Events |-> [type |-> 16, formats |-> {1}] ]
=============================================================================
