SPECIFICATION Spec
CONSTANTS
  HDR = 2
  ENT = 1
  N = 3
  Types = {1, 2}
  KS = {1, 2}
  AddOrder = "bytes_first"
CHECK_DEADLOCK FALSE
INVARIANT TornSoundAdd
INVARIANT InvHeaderSafe
INVARIANT InvIdleSound
