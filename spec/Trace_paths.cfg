SPECIFICATION Spec
CONSTANTS
  Paths = {1, 2, 3}
CONSTRAINT Report
CHECK_DEADLOCK FALSE
