SPECIFICATION Spec
CONSTANTS
  Kind = "FPCal"
  NI = 2
  MaxItems = 2
  MaxChan = 3
  Labels = {1}
  Chans = {0, 2, 1}
  Edits = TRUE
  AutoRule = "max"
INVARIANT InvConforms
INVARIANT InvAligned
INVARIANT InvDisjoint
CHECK_DEADLOCK FALSE
