------------------------------- MODULE TdfTorn -------------------------------
(***************************************************************************)
(* Crash points of add / remove / replace (one object, write context).     *)
(*                                                                         *)
(* A call is started (BeginAdd, BeginRem, BeginRep), which fixes its program *)
(* of effects (TdfTornCore); Eff performs the next one; Tear performs a    *)
(* data write partially and ends the behaviour.  EVERY state is a file a   *)
(* crash can leave behind: every invariant below speaks about all crash    *)
(* points.  What TLC shows (MC_torn.cfg, MC_torn_*.cfg):                   *)
(*                                                                         *)
(*   InvCompose      the program of a call, run to its end, IS the atomic  *)
(*                   operator of TdfFile (and so everything shown for the  *)
(*                   atomic models holds between calls)            HOLDS   *)
(*   InvHeaderSafe   signature, version, slot count never change   HOLDS   *)
(*   InvAddSafe      during an add, every block that was there before is   *)
(*                   listed and stored exactly as before            HOLDS  *)
(*   InvRemOneSided  during a remove either the data region is still the   *)
(*                   old one or the table is already the new one (never    *)
(*                   both half-done)                                HOLDS  *)
(*   TornSound       every crash point is a well-formed file   DOES NOT -  *)
(*                   add writes the entry before the bytes: a crash in     *)
(*                   between leaves an entry that points beyond the end    *)
(*   TornRemReadable during a remove every other block can still be read   *)
(*                   through the table on disk                 DOES NOT -  *)
(*                   the table is rewritten before the bytes move          *)
(* The two refuted ones are replayed on the real library (lib/verif/       *)
(* torn.py): the file the library leaves at that crash point is the one    *)
(* TLC predicts.  Documented behaviour, no listed property (DESIGN 3.11).   *)
(***************************************************************************)
EXTENDS TdfTornCore, TLC

CONSTANTS N, Types, KS,
          AddOrder    \* "lib": the order of the library; "bytes_first": a what-if (see TornSoundAdd)

TE == HDR + ENT * N
TypeOfU(u) == u \div 10
SizeOfU(u) == ((u % 10) % 3) + 1
Blk(u) == [t |-> TypeOfU(u), fmt |-> 1, u |-> u, sz |-> SizeOfU(u), c |-> 1, cd |-> u, md |-> u + 100]
Pay == {10 * t + k : t \in Types, k \in KS}

VARIABLES disk,    \* the file
          base,    \* the file when the call in progress began
          prog,    \* effects still to come
          op,      \* the call in progress: [k, u]  (k = "none" between calls)
          done,    \* effects performed so far in this call
          torn     \* a partial data write happened: the behaviour ends here
vars == <<disk, base, prog, op, done, torn>>

InitFile(k) ==
  LET ts == [i \in 1..k |-> 10 * i + 1]
      off[i \in 1..(k + 1)] == IF i = 1 THEN TE ELSE off[i - 1] + SizeOfU(ts[i - 1])
      RECURSIVE DatOf(_)
      DatOf(i) == IF i > k THEN <<>> ELSE Whole(ts[i], SizeOfU(ts[i])) \o DatOf(i + 1)
  IN [n |-> N, sigok |-> TRUE, version |-> 1,
      table |-> [i \in 1..N |-> IF i <= k THEN NewEntry(Blk(ts[i]), off[i]) ELSE Unused(off[k + 1])],
      data |-> Norm(DatOf(1))]

\* ... and one whose table lists its two blocks in the other order than they are stored
SwappedFile == LET f == InitFile(2) IN [f EXCEPT !.table = [i \in 1..N |-> IF i = 1 THEN f.table[2] ELSE IF i = 2 THEN f.table[1] ELSE f.table[i]]]
StartFile(k) == IF k = 3 THEN SwappedFile ELSE InitFile(k)

None == [k |-> "none", u |-> 0]
Init == disk = InitFile(0) /\ base = InitFile(0) /\ prog = <<>> /\ op = [k |-> "init", u |-> 0] /\ done = 0 /\ torn = FALSE

Setup(k) == /\ op.k = "init" /\ (IF k = 3 THEN 2 ELSE k) <= N /\ (IF k = 3 THEN 2 ELSE k) <= Cardinality(Types)
            /\ disk' = StartFile(k) /\ base' = StartFile(k) /\ op' = None /\ UNCHANGED <<prog, done, torn>>

Idle == op.k = "none" /\ ~torn
BeginAdd(u) == /\ Idle /\ AddCauses(disk.table, Blk(u)) = {}
               /\ prog' = (IF AddOrder = "lib" THEN AddProg(disk.table, disk, Blk(u)) ELSE AddProgBytesFirst(disk.table, disk, Blk(u)))
               /\ op' = [k |-> "add", u |-> u]
               /\ base' = disk /\ done' = 0 /\ UNCHANGED <<disk, torn>>
BeginRem(t) == /\ Idle /\ RemCauses(disk.table, t) = {}
               /\ prog' = RemProg(disk.table, disk, t) /\ op' = [k |-> "rem", u |-> t]
               /\ base' = disk /\ done' = 0 /\ UNCHANGED <<disk, torn>>
BeginRep(u) == /\ Idle /\ RepCauses(disk.table, Blk(u)) = {}
               /\ prog' = RepProg(disk.table, disk, Blk(u)) /\ op' = [k |-> "rep", u |-> u]
               /\ base' = disk /\ done' = 0 /\ UNCHANGED <<disk, torn>>
Eff == /\ prog # <<>> /\ ~torn
       /\ disk' = Apply(disk, Head(prog)) /\ prog' = Tail(prog) /\ done' = done + 1
       /\ op' = (IF Tail(prog) = <<>> THEN None ELSE op)
       /\ UNCHANGED <<base, torn>>
TearDat(j) == /\ prog # <<>> /\ ~torn /\ Head(prog).k = "dat" /\ j \in 1..(Head(prog).sz - 1)
              /\ disk' = Tear(disk, Head(prog), j) /\ torn' = TRUE
              /\ UNCHANGED <<base, prog, op, done>>

Next == \/ \E k \in 0..3 : Setup(k)
        \/ \E u \in Pay : BeginAdd(u) \/ BeginRep(u)
        \/ \E t \in Types : BeginRem(t)
        \/ Eff
        \/ \E j \in 1..3 : TearDat(j)
Spec == Init /\ [][Next]_vars

-----------------------------------------------------------------------------
\* between calls: run to its end, every program is the atomic operator
InvCompose ==
  (op.k = "none" /\ ~torn) =>
    /\ \A u \in Pay : AddCauses(disk.table, Blk(u)) = {} =>
          Run(disk, AddProg(disk.table, disk, Blk(u))) = AddFile(disk, Blk(u))
    /\ \A t \in Types : RemCauses(disk.table, t) = {} =>
          Run(disk, RemProg(disk.table, disk, t)) = RemoveFile(disk, t)
    /\ \A u \in Pay : RepCauses(disk.table, Blk(u)) = {} =>
          Run(disk, RepProg(disk.table, disk, Blk(u))) = ReplaceFile(disk, Blk(u))

\* ... and between calls the file is sound and compact (the single-object results carry over)
InvIdleSound == (op.k = "none" /\ ~torn) => (RangesOK(disk) /\ NoOverlap(disk) /\ UnusedZero(disk) /\ UniqueTypes(disk)
                                             /\ LengthExact(disk) /\ FreeAfterLive(disk) /\ FreeAtEnd(disk))

InvHeaderSafe == disk.n = N /\ disk.sigok /\ disk.version = 1 /\ Len(disk.table) = N

Stored(f, i) == Slice(f.data, f.table[i].offset - TableEnd(f), f.table[i].size)

\* during an add nothing that was there is touched
InvAddSafe ==
  op.k = "add" =>
    \A i \in LiveSlots(base) : disk.table[i] = base.table[i] /\ Stored(disk, i) = Stored(base, i)

\* during a remove: the old data under a half-new table, or the new table over data on the move
Final == Run(base, IF op.k = "rem" THEN RemProg(base.table, base, op.u) ELSE <<>>)
InvRemOneSided == op.k = "rem" => (disk.data = base.data \/ disk.table = Final.table)

\* NOT invariants (checked separately, the counterexamples are replayed on the library)
TornSound == RangesOK(disk) /\ NoOverlap(disk)
\* what-if: with the bytes written BEFORE the entry every crash point of an add is a well-formed
\* file whose old blocks are intact (MC_torn_alt.cfg, AddOrder = "bytes_first": HOLDS; with the
\* library's order it is what TornSound refutes).  For remove no reordering of the four effects
\* helps: the table and the bytes describe each other, and whichever moves first is wrong meanwhile.
TornSoundAdd == op.k = "add" => (TornSound /\ InvAddSafe)
TornRemReadable ==
  op.k = "rem" =>
    \A i \in LiveSlots(disk) : disk.table[i].type # op.u =>
       \A j \in LiveSlots(base) : base.table[j].type = disk.table[i].type => Stored(disk, i) = Stored(base, j)
=============================================================================
