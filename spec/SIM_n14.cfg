SPECIFICATION Spec
CONSTANTS
  HDR = 2
  ENT = 1
  N = 14
  WT = {1, 2, 3, 4, 5, 6, 9, 10, 11}
  SetTypes = {1, 2, 3, 4, 5}
  OT = {7, 8}
  KS = {1, 2, 4}
  AddCs = {0, 1, 2, 9}
  RepCs <- RepCsFull
  DescSel = {1, 2, 4, 5, 6, 7, 16}
  Readers = {}
  ImplicitModes <- ImplicitRb
INVARIANT InvWellFormed
INVARIANT InvFrame
INVARIANT InvCompact
INVARIANT InvUnique
INVARIANT InvNoLeak
INVARIANT InvTableInv
INVARIANT InvTableAgree
INVARIANT InvFamily
CHECK_DEADLOCK FALSE
