SPECIFICATION Spec
CONSTANTS
  MaxW = 4
INVARIANT StrExact
INVARIANT StrRoundTrip
INVARIANT StrRefuse
CONSTRAINT Emit
CHECK_DEADLOCK FALSE
