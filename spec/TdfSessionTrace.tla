-------------------------- MODULE TdfSessionTrace --------------------------
(***************************************************************************)
(* Trace validation for the container: executions of the REAL library,     *)
(* recorded by lib/verif/session.py (operation, arguments, outcome, and an *)
(* independent projection of file, object and accessor results after each  *)
(* call), are checked step by step against TdfSession.                     *)
(*                                                                         *)
(* Real geometry: HDR = 64, ENT = 288, real byte counts.  Many traces per  *)
(* TLC run (tid fans out in Init).  The verdict is total: every step of    *)
(* every trace is judged; each failed clause is recorded as <<step, name>> *)
(* and the name starts with the id of the property it violates.  Clauses   *)
(* starting with "conf:" are differences to the exact outcome the          *)
(* specification predicts that violate no listed property by themselves.   *)
(***************************************************************************)
EXTENDS TdfSession, TLC, Json, IOUtils, SequencesExt

TraceFile == IOEnv.TRACE_FILE
Traces == JsonDeserialize(TraceFile)

AnyImplicit(md) == {md, "rb"}

VARIABLES tid, l, s, cl, dead
vars == <<tid, l, s, cl, dead>>

T == Traces[tid]
NTypes == Len(T.types)
Types == {T.types[i] : i \in 1..NTypes}
Decodable == {T.types[i] : i \in {j \in 1..NTypes : T.decodable[j]}}

\* ---------------------------------------------------------------- abstraction
Row(r) == [type |-> r[1], format |-> r[2], offset |-> r[3], size |-> r[4],
           comment |-> r[5], cdate |-> r[6], mdate |-> r[7]]
AbsTable(rows) == [i \in 1..Len(rows) |-> Row(rows[i])]
AbsData(ex) == [i \in 1..Len(ex) |-> [u |-> ex[i][1], lo |-> ex[i][2], hi |-> ex[i][3]]]
AbsFile(d) == [n |-> d.n, sigok |-> d.sigok, version |-> d.version,
               table |-> AbsTable(d.table), data |-> AbsData(d.data)]

\* the call of an event as a TdfSession call
BlkOf(ev) == [t |-> ev.t, fmt |-> ev.fmt, u |-> ev.u, sz |-> ev.sz, c |-> ev.c, cd |-> ev.cd, md |-> ev.md]
OpOf(ev) ==
  IF ev.op \in {"add", "replace", "set"}
  THEN [op |-> ev.op, b |-> BlkOf(ev), bad |-> ev.bad, cok |-> ev.cok]
  ELSE IF ev.op = "remove" THEN [op |-> "remove", t |-> ev.t]
  ELSE [op |-> ev.op]

\* ghost update from what the call did (not from what it should have done)
GhostAfter(g, o, ok) ==
  IF ~ok \/ o.op \notin Mutators THEN g
  ELSE IF o.op = "remove" THEN [g EXCEPT !.stored[o.t] = None]
  ELSE LET prev == g.stored[o.b.t]
           c == IF o.op = "add" THEN o.b.c
                ELSE IF o.op = "replace" /\ o.b.c # NoComment THEN o.b.c
                ELSE IF prev # None THEN prev.c
                ELSE IF o.op = "set" THEN DefaultComment ELSE NoComment
       IN [g EXCEPT !.stored[o.b.t] = StoredOf([o.b EXCEPT !.c = c])]

If(c, name) == IF c THEN {name} ELSE {}
HasMro(ev, name) == \E i \in 1..Len(ev.res.mro) : ev.res.mro[i] = name

\* ---------------------------------------------------------------- clauses
\* structural soundness of the observed file (C03)
\* (a file whose table could not be parsed in full - shorter than its header says, or the header
\* overwritten - has no slots to speak about: the other clauses are not evaluated on it)
Parsed(f, d) == Len(f.table) = f.n /\ ~d.short
C03(f, g, d) ==
  IF ~Parsed(f, d) THEN {"C03:header"}
  ELSE If(~(f.sigok /\ f.version = g.v0 /\ f.n = g.n0), "C03:header")
  \cup If(~RangesOK(f) \/ d.flen # FileLen(f), "C03:range")
  \cup If(~NoOverlap(f), "C03:overlap")
  \cup If(~UnusedZero(f), "C03:unused_size")

Sound(f, g, d) == C03(f, g, d) = {}

\* frame condition (C04), per live entry and per stored type
C04(f, g) ==
  UNION {
    LET e == f.table[i] IN
    IF e.type \notin Types THEN {"C04:foreign_type"}
    ELSE IF g.stored[e.type] = None THEN {"C04:removed_present"}
    ELSE LET st == g.stored[e.type] IN
         If(e.size # st.sz \/ Slice(f.data, e.offset - TableEnd(f), e.size) # Whole(st.u, st.sz), "C04:content")
         \cup If(e.format # st.fmt, "C04:format")
         \cup If(e.comment # st.c, "C04:comment")
         \cup If(e.cdate # st.cd \/ e.mdate # st.md, "C04:dates")
    : i \in LiveSlots(f) }
  \cup If(\E t \in Types : g.stored[t] # None /\ ~HasType(f, t), "C04:lost_block")

\* reading a block through the open object returns what was stored (C04), whatever the object
\* may remember from earlier reads
C04read(g, v) ==
  IF ~v.on THEN {}
  ELSE If(\E k \in 1..NTypes :
            LET t == T.types[k] IN
            t \in Decodable /\ g.stored[t] # None /\ v.get[k] # g.stored[t].u, "C04:read_ne_stored")

\* compactness (C09)
C09(f, g) ==
  IF ~g.compact THEN {}
  ELSE If(~FreeAfterLive(f), "C09:free_after_live")
       \cup If(~BackToBack(f), "C09:back_to_back")
       \cup If(~LengthExact(f), "C09:file_length")
       \cup If(~FreeAtEnd(f), "C09:free_slot_offset")

\* object = disk = reopened (C10)
C10(f, ob) ==
     If(ob.mem.inside /\ ob.mem.has_entries /\ AbsTable(ob.mem.entries) # f.table, "C10:mem_ne_disk")
  \cup If(ob.reopen.ok /\ AbsTable(ob.reopen.entries) # f.table, "C10:reopen_ne_disk")
  \* "... dates to the second": the access date too (it is outside the file model - the library stamps
  \* it with the clock - but the object and the file must still agree on it)
  \cup If(ob.mem.inside /\ ob.mem.has_entries /\ ob.mem.adates # ob.disk.adates, "C10:mem_ne_disk")
  \cup If(~ob.reopen.ok, "C10:reopen_failed")
  \cup If(ob.view.on /\ ob.view.nbytes # ob.disk.flen, "C10:nbytes_ne_stat")
  \cup If(ob.view.on /\ \E k \in 1..NTypes :
            LET t == T.types[k] IN
            /\ t \in Decodable /\ HasType(f, t)
            /\ LET e == f.table[FirstOf(f, t)] IN
               Slice(f.data, e.offset - TableEnd(f), e.size) # Whole(ob.view.get[k], e.size), "C10:get_ne_disk")

\* one block per type; accessors agree with the table (C11)
Raised == -2
ContentOf(f, i) == LET e == f.table[i]
                       sl == Slice(f.data, e.offset - TableEnd(f), e.size) IN
                   IF Len(sl) = 1 /\ sl[1].lo = 0 /\ sl[1].hi = e.size THEN sl[1].u ELSE -1
C11view(f, v) ==
  IF ~v.on THEN {}
  ELSE If(v.len # Cardinality(LiveSlots(f)), "C11:len")
       \cup If(\E k \in 1..NTypes : v.has[k] # -3 /\ (v.has[k] = 1) # HasType(f, T.types[k]), "C11:has")
       \cup If(\E k \in 1..NTypes :
                 LET t == T.types[k] IN
                 \/ ~HasType(f, t) /\ v.get[k] # Raised
                 \/ HasType(f, t) /\ t \in Decodable /\ v.get[k] # ContentOf(f, FirstOf(f, t)), "C11:get_type")
       \cup If(\E k \in 1..NTypes :
                 LET t == T.types[k] IN
                 /\ v.getter[k] # -3
                 /\ \/ ~HasType(f, t) /\ v.getter[k] # Raised
                    \/ HasType(f, t) /\ t \in Decodable /\ v.getter[k] # ContentOf(f, FirstOf(f, t)), "C11:getter")
       \cup If(Len(v.idx) # f.n \/ \E i \in 1..f.n :
                 LET e == f.table[i] IN
                 /\ i <= Len(v.idx)
                 /\ \/ ~IsLive(e) /\ v.idx[i] # 0
                    \/ IsLive(e) /\ e.type \in Decodable /\ v.idx[i] # ContentOf(f, i), "C11:get_index")
       \cup If(v.oob # Raised, "C11:index_out_of_range")
       \cup If((\A i \in LiveSlots(f) : f.table[i].type \in Decodable)
                 /\ (v.blocks_ok = FALSE
                     \/ Len(v.blocks) # f.n
                     \/ \E i \in 1..f.n : i <= Len(v.blocks) /\
                          v.blocks[i] # (IF IsLive(f.table[i]) THEN ContentOf(f, i) ELSE 0)), "C11:blocks")

\* ---------------------------------------------------------------- table relations
\* the observed table step of an accepted add / remove / replace is one TdfTableRel admits (those
\* relations preserve the structural invariant for N = 14 and arbitrary sizes: TdfTableInd)
TableOfN(f) == [ty |-> [i \in 1..f.n |-> f.table[i].type], off |-> [i \in 1..f.n |-> f.table[i].offset],
                sz |-> [i \in 1..f.n |-> f.table[i].size], flen |-> FileLen(f)]
TRel(n) == INSTANCE TdfTableRel WITH N <- n, TE <- HDR + ENT * n
StepInRelation(pre, o, f) ==
  LET n == pre.n  x == TableOfN(pre)  y == TableOfN(f) IN
  IF f.n # n \/ Len(f.table) # n THEN FALSE
  ELSE IF o.op = "remove" THEN TRel(n)!RemRel(x, y, o.t)
  ELSE IF o.op = "add" \/ (o.op = "set" /\ ~HasType(pre, o.b.t)) THEN TRel(n)!AddRel(x, y, o.b.t, o.b.sz)
  ELSE LET mid == RemoveFile(pre, o.b.t) IN
       TRel(n)!RemRel(x, TableOfN(mid), o.b.t) /\ TRel(n)!AddRel(TableOfN(mid), y, o.b.t, o.b.sz)

\* ---------------------------------------------------------------- one step
StepClauses(pre, ev, o, out, f, g2) ==
  LET ob == ev.obs
      d  == ob.disk
      ok == ev.res.ok
      changed == d.sha # pre.sha
      mut == o.op \in Mutators
      exp == out.causes = {}
      sound == Sound(f, pre.s.g, d)
  IN
  \* --- outcome
     If(mut /\ ~exp /\ ok /\ (out.causes \cap {"nocontext", "readonly"}) # {}, "C08:mutator_not_refused")
  \cup If(mut /\ ~exp /\ ok /\ "duplicate" \in out.causes, "C11:dup_accepted")
  \cup If(mut /\ ~exp /\ ok /\ (out.causes \cap {"nocontext", "readonly", "duplicate"}) = {}, "conf:invalid_accepted")
  \cup If(mut /\ exp /\ ~ok /\ o.op = "set", "C11:setter_refused")
  \cup If(mut /\ exp /\ ~ok /\ o.op # "set", "conf:unexpected_refusal")
  \* "adding a block whose type is already present is refused with ValueError" - whatever else is
  \* wrong with the request or the table (the permission checks come first: nocontext, readonly)
  \* (and unless what is added is not a block of that type to begin with: "badblock")
  \cup If(mut /\ ~ok /\ o.op = "add" /\ "duplicate" \in out.causes /\ out.causes \cap {"nocontext", "readonly", "badblock"} = {}
            /\ ~HasMro(ev, "ValueError"), "C11:dup_not_valueerror")
  \cup If(mut /\ ~ok /\ out.causes # {} /\ out.causes \subseteq {"duplicate", "full"} /\ ~HasMro(ev, "ValueError"), "conf:full_not_valueerror")
  \cup If(mut /\ ~ok /\ out.causes # {} /\ out.causes \subseteq {"badblock", "badcomment"}
            /\ (("badblock" \in out.causes) => o.bad = "text") /\ ~HasMro(ev, "ValueError"), "C13:text_not_valueerror")
  \* --- a call that raises leaves the file (and, in a write context, the object) as it was
  \cup If(~ok /\ changed /\ CanWrite(pre.s.m), "C07:changed_on_failure")
  \cup If(~ok /\ changed /\ ~CanWrite(pre.s.m), "C08:changed_outside_write_ctx")
  \cup If(mut /\ ~ok /\ CanWrite(pre.s.m) /\ ob.mem.has_entries /\ pre.me # <<>> /\ ob.mem.entries # pre.me, "C07:mem_changed_on_failure")
  \* (a refused call may leave a stray write in the handle's buffer that reaches the file only
  \* with the next flush: bytes that change at a later non-mutating step of the same context)
  \cup If(~mut /\ changed /\ pre.dirty, "C07:changed_after_failure")
  \* --- what a read returns - with or without an open context, through whichever object - is what
  \* the file holds at that moment (C11: "at every point the presence checks, the number of live
  \* blocks, lookup by type ... report exactly the set of live blocks")
  \cup If(o.op = "read" /\ ok /\ ev.rv # -3 /\ sound /\
            (CASE ev.what = "has" -> (ev.rv = 1) # HasType(f, ev.t)
               [] ev.what = "len" -> ev.rv # Cardinality(LiveSlots(f))
               [] ev.what \in {"get_type", "item", "getter"} ->
                    ~HasType(f, ev.t) \/ (ev.t \in Decodable /\ ev.rv # ContentOf(f, FirstOf(f, ev.t)))
               [] OTHER -> FALSE), "C11:read_value")
  \cup If(o.op = "read" /\ ~ok /\ sound /\ ev.what \in {"has", "len"}, "C11:read_value")
  \* --- bytes change only through a mutator in a write context
  \cup If(ok /\ changed /\ ~mut, "C08:reader_changed_bytes")
  \* the object Tdf.copy returns accepted a mutation although allow_write() was never called on it
  \cup If(ev.leak, "C08:copy_is_write_enabled")
  \* __exit__ answered "handled" for an exception that crossed the context: a mutation refused
  \* inside a with block would no longer raise out of it
  \cup If(ev.swallow, "C08:exit_swallows_exception")
  \cup If(ok /\ changed /\ mut /\ ~CanWrite(pre.s.m), "C08:changed_outside_write_ctx")
  \cup If(~ob.mem.inside /\ ob.mem.fds # 0, "C08:handle_leak")
  \cup If(ob.mem.inside /\ ob.mem.fds > 1, "C08:handle_leak")
  \* --- state clauses
  \cup C03(f, pre.s.g, d)
  \cup If(sound /\ ~UniqueTypes(f), "C11:duplicate_types")
  \* (two live ranges that overlap, or a live range outside the file, cannot both / at all hold
  \* the bytes that were stored: the frame condition is broken together with C03)
  \cup (IF sound THEN C04(f, g2) \cup C04read(g2, ob.view) ELSE If(~Parsed(f, d) \/ ~NoOverlap(f) \/ ~RangesOK(f) \/ d.flen # FileLen(f), "C04:content"))
  \* (the length clauses only need the table and the file length: they are judged even when
  \* the file is structurally broken)
  \cup (IF sound THEN C09(f, g2)
        ELSE If(g2.compact /\ Parsed(f, d) /\ d.flen # TableEnd(f) + LiveSum(f, f.n), "C09:file_length"))
  \cup (IF pre.s.g.compact /\ ok /\ o.op = "add" /\ d.flen # pre.flen + o.b.sz THEN {"C09:grow_exact"} ELSE {})
  \cup (IF pre.s.g.compact /\ ok /\ o.op = "remove" /\ HasType(pre.s.f, o.t)
           /\ d.flen # pre.flen - pre.s.f.table[FirstOf(pre.s.f, o.t)].size THEN {"C09:shrink_exact"} ELSE {})
  \* (comparing the three tables needs no more than a table that could be parsed)
  \cup (IF sound THEN C10(f, ob)
        ELSE IF d.short \/ Len(f.table) # f.n THEN {}
        ELSE If(ob.mem.inside /\ ob.mem.has_entries /\ AbsTable(ob.mem.entries) # f.table, "C10:mem_ne_disk")
             \cup If(ob.reopen.ok /\ AbsTable(ob.reopen.entries) # f.table, "C10:reopen_ne_disk"))
  \* (on a file that is no longer sound the accessors are judged against the file the model predicts
  \* for this accepted call: "at every point ... report exactly the set of live blocks" - the blocks
  \* the history made live.  On a tree where C03 holds this branch is never taken.)
  \cup (IF sound THEN C11view(f, ob.view)
        ELSE IF ok /\ exp /\ mut /\ Parsed(f, d)
             THEN C11view(out.f, ob.view)
                  \* ... and what a fresh object finds in the table (its presence checks and count read nothing else)
                  \cup If(ob.reopen.ok /\ {ob.reopen.entries[i][1] : i \in 1..Len(ob.reopen.entries)} \ {0} # LiveTypes(out.f),
                          "C11:presence_after_reopen")
             ELSE {})
  \* --- exact conformance with the predicted file
  \cup If(sound /\ ok /\ exp /\ mut /\
            \E i \in 1..f.n : i <= Len(out.f.table) /\
               LET a == out.f.table[i]  b == f.table[i] IN
               a.type # b.type \/ (IsLive(a) /\ a # b) \/ (~IsLive(a) /\ pre.s.g.compact /\ a.offset # b.offset),
          "conf:table")
  \cup If(sound /\ ok /\ exp /\ mut /\ FileLen(out.f) # d.flen, "conf:file_length")
  \* --- "later operations in the same session behave as if the failed call had never been made":
  \* an accepted mutation that follows a refused one in the same context must produce exactly the
  \* file it would have produced without it (which is the predicted one)
  \cup If(pre.failed /\ ok /\ exp /\ mut /\
            (~sound \/ FileLen(out.f) # d.flen \/ C04(f, g2) # {}
             \/ \E i \in 1..f.n : i <= Len(out.f.table) /\
                   LET a == out.f.table[i]  b == f.table[i] IN a.type # b.type \/ (IsLive(a) /\ a # b)),
          "C07:later_call_differs_after_failure")
  \cup If(sound /\ ok /\ exp /\ mut /\ FreeBeyondLive(pre.s.f) /\ ~StepInRelation(pre.s.f, o, f), "conf:table_relation")

\* ---------------------------------------------------------------- behaviour
\* state: s = [s |-> session state, sha, flen, me]  (me = object table last seen)
InitFor(t) ==
  LET d == Traces[t].init.disk
      f == AbsFile(d)
      tys == {Traces[t].types[i] : i \in 1..Len(Traces[t].types)} IN
  [s |-> [f |-> f, m |-> Closed("rb"), g |-> GhostInit(f, tys)], sha |-> d.sha, flen |-> d.flen, me |-> <<>>,
   dirty |-> FALSE, failed |-> FALSE]

Init == /\ tid \in 1..Len(Traces)
        /\ l = 1
        /\ s = InitFor(tid)
        /\ cl = {}
        /\ dead = FALSE

Step ==
  /\ ~dead /\ l <= Len(T.steps)
  /\ LET ev  == T.steps[l]
         o   == OpOf(ev)
         out == Outcome(s.s, o)
         f   == AbsFile(ev.obs.disk)
         g2  == GhostAfter(s.s.g, o, ev.res.ok)
         cs  == StepClauses(s, ev, o, out, f, g2)
         fit == {m \in out.ms : m.inside = ev.obs.mem.inside}
         ms  == IF fit # {} THEN fit ELSE out.ms
     IN /\ \E m2 \in ms :
             s' = [s |-> [f |-> f, m |-> m2, g |-> g2], sha |-> ev.obs.disk.sha, flen |-> ev.obs.disk.flen,
                   me |-> IF ev.obs.mem.inside /\ ev.obs.mem.has_entries THEN ev.obs.mem.entries ELSE <<>>,
                   \* a refused mutator in a write context makes the context "dirty" until the next
                   \* successful mutator or the next context
                   dirty |-> IF o.op \in Mutators THEN (~ev.res.ok /\ CanWrite(s.s.m))
                             ELSE IF o.op = "enter" THEN FALSE ELSE s.dirty,
                   \* a refused mutator happened earlier in this write context
                   failed |-> IF o.op = "enter" THEN FALSE
                              ELSE s.failed \/ (o.op \in Mutators /\ ~ev.res.ok /\ CanWrite(s.s.m))]
        /\ cl' = cl \cup {<<l, c>> : c \in cs}
        /\ dead' = ~Sound(f, s.s.g, ev.obs.disk)
        /\ l' = l + 1
        /\ UNCHANGED tid

Spec == Init /\ [][Step]_vars

Finished == dead \/ l > Len(T.steps)
Report == IF Finished
          THEN PrintT("END " \o ToJson([tid |-> tid, l |-> l - 1, cl |-> SetToSeq({<<c[1], c[2]>> : c \in cl})]))
          ELSE TRUE

\* the initial file of every trace must itself be in the explored family
InitOK == l = 1 => /\ Sound(s.s.f, s.s.g, T.init.disk)
                   /\ FrameOK(s.s, Types)
=============================================================================
