SPECIFICATION Spec
CONSTANTS
  HDR = 2
  ENT = 1
  N = 2
  WT = {1, 2}
  SetTypes = {1, 2}
  OT = {7, 8}
  KS = {1, 2, 4}
  AddCs = {0, 1, 9}
  RepCs <- RepCsFull
  DescSel = {1,2,3,4,5,6,8,9,10,11,12,14,16,18}
  Readers = {}
  ImplicitModes <- ImplicitRb
INVARIANT InvWellFormed
INVARIANT InvFrame
INVARIANT InvCompact
INVARIANT InvUnique
INVARIANT InvNoLeak
INVARIANT InvTableInv
INVARIANT InvTableAgree
INVARIANT InvFamily
INVARIANT InvSteps
INVARIANT InvCarry
CHECK_DEADLOCK FALSE
