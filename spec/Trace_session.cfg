SPECIFICATION Spec
CONSTANTS
  HDR = 64
  ENT = 288
  ImplicitModes <- AnyImplicit
CONSTRAINT Report
INVARIANT InitOK
CHECK_DEADLOCK FALSE
