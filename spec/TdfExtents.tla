---------------------------- MODULE TdfExtents ----------------------------
(***************************************************************************)
(* The data region of a TDF file (everything after the jump table) as a   *)
(* sequence of EXTENTS  [u, lo, hi] = "bytes lo..hi-1 of payload u".       *)
(* u = 0 is garbage / a hole (bytes nobody stored on purpose), u = -1 is   *)
(* "bytes that match no registered payload" (only produced by observers).  *)
(* The operators implement byte-range surgery exactly: an extent can be    *)
(* split at any byte, adjacent pieces of the same payload merge again.     *)
(* Sizes are plain integers, so the same operators run on toy geometry     *)
(* (sizes 1..3) in the MC models and on real byte counts in trace          *)
(* validation.                                                             *)
(***************************************************************************)
EXTENDS Integers, Sequences

ELen(e) == e.hi - e.lo

RECURSIVE DLen(_)
DLen(d) == IF d = <<>> THEN 0 ELSE ELen(Head(d)) + DLen(Tail(d))

\* first n bytes of d
RECURSIVE TakeB(_, _)
TakeB(d, n) ==
  IF n <= 0 \/ d = <<>> THEN <<>>
  ELSE LET e == Head(d) IN
       IF ELen(e) <= n THEN <<e>> \o TakeB(Tail(d), n - ELen(e))
       ELSE << [e EXCEPT !.hi = e.lo + n] >>

\* d without its first n bytes
RECURSIVE DropB(_, _)
DropB(d, n) ==
  IF n <= 0 \/ d = <<>> THEN d
  ELSE LET e == Head(d) IN
       IF ELen(e) <= n THEN DropB(Tail(d), n - ELen(e))
       ELSE << [e EXCEPT !.lo = e.lo + n] >> \o Tail(d)

\* canonical form: holes are [0,0,n], empty pieces dropped, adjacent pieces of
\* the same payload (and adjacent holes) merged
Canon(e) == IF e.u = 0 THEN [u |-> 0, lo |-> 0, hi |-> ELen(e)] ELSE e
RECURSIVE Merge(_)
Merge(d) ==
  IF d = <<>> THEN <<>>
  ELSE IF ELen(Head(d)) = 0 THEN Merge(Tail(d))
  ELSE IF Len(d) = 1 THEN << Canon(d[1]) >>
  ELSE LET a == Canon(d[1])  b == Canon(d[2]) IN
       IF ELen(b) = 0 THEN Merge(<<a>> \o Tail(Tail(d)))
       ELSE IF a.u = 0 /\ b.u = 0
            THEN Merge(<< [u |-> 0, lo |-> 0, hi |-> ELen(a) + ELen(b)] >> \o Tail(Tail(d)))
       ELSE IF a.u = b.u /\ a.hi = b.lo
            THEN Merge(<< [a EXCEPT !.hi = b.hi] >> \o Tail(Tail(d)))
       ELSE <<a>> \o Merge(Tail(d))
Norm(d) == Merge(d)

Hole(n) == IF n <= 0 THEN <<>> ELSE << [u |-> 0, lo |-> 0, hi |-> n] >>

\* write extent ext at byte position at (0-based, relative to the start of
\* the data region); writing past the end leaves a hole, as the OS does
WriteAt(d, at, ext) ==
  LET L == DLen(d) IN
  IF at >= L THEN Norm(d \o Hole(at - L) \o <<ext>>)
  ELSE Norm(TakeB(d, at) \o <<ext>> \o DropB(d, at + ELen(ext)))

\* remove n bytes at position at; everything behind moves up
Cut(d, at, n) == Norm(TakeB(d, at) \o DropB(d, at + n))

\* the n bytes at position at
Slice(d, at, n) == Norm(TakeB(DropB(d, at), n))

Whole(u, n) == << [u |-> u, lo |-> 0, hi |-> n] >>
=============================================================================
