SPECIFICATION Spec
CONSTANTS
  HDR = 2
  ENT = 1
  N = 3
  Types = {1, 2}
  KS = {1, 2}
  AddOrder = "lib"
INVARIANT InvCompose
INVARIANT InvIdleSound
INVARIANT InvHeaderSafe
INVARIANT InvAddSafe
INVARIANT InvRemOneSided
CHECK_DEADLOCK FALSE
