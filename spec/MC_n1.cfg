SPECIFICATION Spec
CONSTANTS
  HDR = 2
  ENT = 1
  N = 1
  WT = {1, 2}
  SetTypes = {1, 2}
  OT = {7}
  KS = {1, 2}
  AddCs = {0, 1, 9}
  RepCs <- RepCsFull
  DescSel = {1,2,3}
  Readers = {}
  ImplicitModes <- ImplicitRb
INVARIANT InvWellFormed
INVARIANT InvFrame
INVARIANT InvCompact
INVARIANT InvUnique
INVARIANT InvNoLeak
INVARIANT InvTableInv
INVARIANT InvTableAgree
INVARIANT InvFamily
INVARIANT InvSteps
INVARIANT InvCarry
CHECK_DEADLOCK FALSE
