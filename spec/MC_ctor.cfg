SPECIFICATION Spec
CONSTANTS
  MaxRank = 3
  MaxExt = 4
INVARIANT Consistent
INVARIANT OneShape
CONSTRAINT Emit
CHECK_DEADLOCK FALSE
