-------------------------- MODULE TdfObjectsTrace --------------------------
(***************************************************************************)
(* Trace validation for block objects: executions of the real classes      *)
(* (two live instances, lib/verif/objects.py) with the projection of BOTH  *)
(* instances after every call are judged step by step against              *)
(* TdfObjectsCore!Step.  The clause names carry the property ids.          *)
(***************************************************************************)
EXTENDS TdfObjectsCore, Json, IOUtils, SequencesExt

Traces == JsonDeserialize(IOEnv.TRACE_FILE)
VARIABLES tid, l, cur, cl
vars == <<tid, l, cur, cl>>
T == Traces[tid]

Init == /\ tid \in 1..Len(Traces)
        /\ l = 1
        /\ cur = Traces[tid].init
        /\ cl = {}
Next == /\ l <= Len(T.steps)
        /\ LET ev == T.steps[l] IN
           /\ cl' = cl \cup {<<l, c>> : c \in Step(T.kind, cur, ev.o, ev.w, ev.r)}
           /\ cur' = ev.w
        /\ l' = l + 1
        /\ UNCHANGED tid
Spec == Init /\ [][Next]_vars
Report == IF l > Len(T.steps)
          THEN PrintT("END " \o ToJson([tid |-> tid, l |-> l - 1, cl |-> SetToSeq({<<c[1], c[2]>> : c \in cl})]))
          ELSE TRUE
=============================================================================
