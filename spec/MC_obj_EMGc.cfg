SPECIFICATION Spec
CONSTANTS
  Kind = "EMG"
  NI = 2
  MaxItems = 3
  MaxChan = 3
  Labels = {1}
  Chans = {0, 1, 2}
  Edits = FALSE
  AutoRule = "max"
INVARIANT InvConforms
INVARIANT InvAligned
INVARIANT InvDisjoint
CHECK_DEADLOCK FALSE
