--------------------------- MODULE TdfHandlesCore ---------------------------
(***************************************************************************)
(* The effect of add and remove made through an object whose copy of the   *)
(* jump table is M, on a file whose real content is D - pure operators,    *)
(* shared by the model (TdfHandles) and the replay spec (TdfHandlesTrace). *)
(***************************************************************************)
EXTENDS TdfFile

-----
(* The effect of one call made through a handle whose copy of the table is  *)
(* M, on a file whose real content is D.  M is a sequence of N entries.     *)

MHas(M, t)   == \E i \in 1..Len(M) : M[i].type = t
MFirst(M, t) == CHOOSE i \in 1..Len(M) : M[i].type = t /\ \A j \in 1..(i - 1) : M[j].type # t
MHole(M, k)  == \E j \in (k + 1)..Len(M) : M[j].type # 0

\* add: refused on a duplicate (in the COPY), on a full copy, on a hole in the copy
AddCauses(M, b) ==
  (IF MHas(M, b.t) THEN {"duplicate"} ELSE {})
  \cup (IF ~MHas(M, 0) THEN {"full"} ELSE {})
  \cup (IF MHas(M, 0) /\ MHole(M, MFirst(M, 0)) THEN {"hole"} ELSE {})

\* accepted add: the entry goes to the first unused slot of the copy, at the offset that slot
\* carries in the copy; that slot and every slot behind it are rewritten on disk from the copy,
\* the slots in front of it are NOT; the block bytes go to that offset, whatever is there
HAdd(M, D, b) ==
  LET k   == MFirst(M, 0)
      off == M[k].offset
      M2  == [i \in 1..Len(M) |-> IF i = k THEN NewEntry(b, off)
                                  ELSE IF i > k THEN [M[i] EXCEPT !.offset = off + b.sz]
                                  ELSE M[i]]
  IN [m |-> M2,
      d |-> [D EXCEPT !.table = [i \in 1..D.n |-> IF i >= k THEN M2[i] ELSE D.table[i]],
                      !.data  = WriteAt(D.data, off - TableEnd(D), [u |-> b.u, lo |-> 0, hi |-> b.sz])]]

RemCauses(M, t) == IF MHas(M, t) THEN {} ELSE {"missing"}

\* the end of the data as the code computes it: the largest end among the entries of the copy
\* (unused ones included); the end of the table only if there is no entry at all
RECURSIVE MaxEndM(_, _)
MaxEndM(tb, k) == IF k = 1 THEN tb[1].offset + tb[1].size
                  ELSE LET m == MaxEndM(tb, k - 1) IN
                       IF tb[k].offset + tb[k].size > m THEN tb[k].offset + tb[k].size ELSE m

\* accepted remove: the entry leaves the copy, every entry of the copy stored behind it moves
\* down; on disk a slot is rewritten if its entry moved down or is listed at or behind the removed
\* position; a new unused slot goes to the last slot; the bytes behind the removed block - as they
\* are ON DISK - move up and the file is cut there.  If the removed block, as the copy sees it,
\* lies beyond the real end of the file, nothing is moved and the file is extended to its offset.
HRemove(M, D, t) ==
  LET p   == MFirst(M, t)
      e   == M[p]
      n   == Len(M)
      Src(i) == IF i < p THEN M[i] ELSE M[i + 1]
      Moved(x) == x.offset > e.offset
      Down(x) == IF Moved(x) THEN [x EXCEPT !.offset = @ - e.size] ELSE x
      sh  == [i \in 1..(n - 1) |-> Down(Src(i))]
      newoff == IF n = 1 THEN TableEnd(D) ELSE MaxEndM(sh, n - 1)
      M2  == [i \in 1..n |-> IF i < n THEN sh[i] ELSE Unused(newoff)]
      at  == e.offset - TableEnd(D)
      L   == DLen(D.data)
  IN [m |-> M2,
      d |-> [D EXCEPT !.table = [i \in 1..D.n |->
                                   IF i = n THEN M2[n]
                                   ELSE IF Moved(Src(i)) \/ i >= p THEN M2[i] ELSE D.table[i]],
                      !.data  = IF at >= L THEN Norm(D.data \o Hole(at - L))
                                ELSE Cut(D.data, at, e.size)]]

------------------------------------------------------------------------\* replace: refused when the copy has no block of the type, or when - with that entry taken out of the
\* copy - a live entry would follow the first unused slot; otherwise remove, then add, both through
\* the same copy; a comment that is not given is carried over from the copy's entry
RepCauses(M, b) ==
  IF ~MHas(M, b.t) THEN {"missing"}
  ELSE LET p == MFirst(M, b.t)
           rest == [i \in 1..(Len(M) - 1) |-> IF i < p THEN M[i] ELSE M[i + 1]]
       IN IF MHas(rest, 0) /\ MHole(rest, MFirst(rest, 0)) THEN {"hole"} ELSE {}
\* (with a stale copy the add that follows the remove can still be refused - the copy may list the
\* type twice -: the call raises then, and the removal stays: field ok)
HReplace(M, D, b) ==
  LET old == M[MFirst(M, b.t)]
      bb  == IF b.c = NoComment THEN [b EXCEPT !.c = old.comment] ELSE b
      r1  == HRemove(M, D, b.t)
  IN IF AddCauses(r1.m, bb) = {}
     THEN LET r2 == HAdd(r1.m, r1.d, bb) IN [m |-> r2.m, d |-> r2.d, ok |-> TRUE]
     ELSE [m |-> r1.m, d |-> r1.d, ok |-> FALSE]
=============================================================================
