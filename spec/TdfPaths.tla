------------------------------ MODULE TdfPaths ------------------------------
(* Bounded model of TdfPathsCore: exhaustive check of the contract and source *)
(* of the transition tours executed on real paths (lib/verif/paths.py).      *)
EXTENDS TdfPathsCore
CONSTANTS MaxCid

\* ---------------------------------------------------------------- MC
VARIABLES fs, started
vars == <<fs, started>>

Kinds == {Absent, Empty, [kind |-> "nontdf", cid |-> 2], [kind |-> "tdf", cid |-> 3]}
Ops == {[op |-> "new", p |-> p] : p \in Paths}
       \cup {[op |-> "copy", p |-> p, q |-> q] : p \in Paths, q \in Paths}
       \cup {[op |-> k, p |-> p] : k \in {"open", "enter", "read", "mutate"}, p \in Paths}
       \cup {o \in {[op |-> "mcopy", p |-> p, q |-> q] : p \in Paths, q \in Paths} : o.p # o.q}

Init == started = FALSE /\ fs = [p \in Paths |-> Absent]
Setup(f) == ~started /\ started' = TRUE /\ fs' = f
\* one successor per call: fresh content ids are the smallest unused id
FreshCid == IF \E c \in 4..MaxCid : \A p \in Paths : fs[p].cid # c
            THEN CHOOSE c \in 4..MaxCid : \A p \in Paths : fs[p].cid # c ELSE MaxCid + 1
ResultOf(o) ==
  CASE o.op = "new"  -> IF Exists(fs[o.p]) THEN "exists" ELSE "ok"
    [] o.op = "copy" -> IF ~Exists(fs[o.p]) THEN "refused" ELSE IF Exists(fs[o.q]) THEN "exists" ELSE "ok"
    [] o.op = "open" -> IF Exists(fs[o.p]) THEN "ok" ELSE "refused"
    [] o.op \in {"enter", "read", "mutate"} -> IF fs[o.p].kind = "tdf" THEN "ok" ELSE "refused"
    [] o.op = "mcopy" -> IF fs[o.p].kind # "tdf" THEN "refused" ELSE IF Exists(fs[o.q]) THEN "exists" ELSE "ok"
SuccOf(o) ==
  IF o.op = "mcopy" /\ fs[o.p].kind = "tdf"
  THEN LET m == [fs EXCEPT ![o.p] = [kind |-> "tdf", cid |-> FreshCid]] IN
       IF Exists(fs[o.q]) THEN m ELSE [m EXCEPT ![o.q] = m[o.p]]
  ELSE IF ResultOf(o) # "ok" THEN fs
  ELSE CASE o.op = "new"    -> [fs EXCEPT ![o.p] = [kind |-> "tdf", cid |-> 1]]
         [] o.op = "copy"   -> [fs EXCEPT ![o.q] = fs[o.p]]
         [] o.op = "mutate" -> [fs EXCEPT ![o.p] = [kind |-> "tdf", cid |-> FreshCid]]
         [] OTHER           -> fs
Do(o) == started /\ UNCHANGED started /\ fs' = SuccOf(o)
\* the successor the model takes is one the contract allows
InvAllowed == started => \A o \in Ops : Allowed(fs, o, SuccOf(o), ResultOf(o))
New(p)     == Do([op |-> "new", p |-> p])
Copy(p, q) == Do([op |-> "copy", p |-> p, q |-> q])
Open(p)    == Do([op |-> "open", p |-> p])
Enter(p)   == Do([op |-> "enter", p |-> p])
Read(p)    == Do([op |-> "read", p |-> p])
Mutate(p)  == (\E c \in 4..MaxCid : \A q \in Paths : fs[q].cid # c) /\ Do([op |-> "mutate", p |-> p])
MCopy(p, q) == p # q /\ (\E c \in 4..MaxCid : \A x \in Paths : fs[x].cid # c) /\ Do([op |-> "mcopy", p |-> p, q |-> q])

Next == \/ \E f \in [Paths -> Kinds] : Setup(f)
        \/ \E p \in Paths : New(p) \/ Open(p) \/ Enter(p) \/ Read(p) \/ Mutate(p)
        \/ \E p, q \in Paths : Copy(p, q) \/ MCopy(p, q)
Spec == Init /\ [][Next]_vars

\* design-level properties: whatever call is made, an existing target is never
\* changed by new/copy; only mutate changes an existing file
NeverClobber == [][\A p \in Paths : (Exists(fs[p]) /\ fs'[p] # fs[p]) => (started /\ fs[p].kind = "tdf" /\ fs'[p].kind = "tdf")]_vars
KindsStable  == [][started => \A p \in Paths : Exists(fs[p]) => fs'[p].kind = fs[p].kind]_vars
=============================================================================
