SPECIFICATION Spec
CONSTANTS
  Kind = "Unused"
  NI = 2
  MaxItems = 3
  MaxChan = 3
  Labels = {1, 2}
  Chans = {0, 2, 5}
  Edits = FALSE
  AutoRule = "max"
INVARIANT InvConforms
INVARIANT InvAligned
INVARIANT InvDisjoint
CHECK_DEADLOCK FALSE
