SPECIFICATION Spec
CONSTANTS
  HDR = 2
  ENT = 1
  N = 4
  WT = {1, 2, 3}
  SetTypes = {1, 2, 3}
  OT = {7}
  KS = {1, 2}
  AddCs = {0}
  RepCs <- RepCsSmall
  DescSel = {7,13,15,17,19,21}
  Readers = {}
  ImplicitModes <- ImplicitRb
INVARIANT InvWellFormed
INVARIANT InvFrame
INVARIANT InvCompact
INVARIANT InvUnique
INVARIANT InvNoLeak
INVARIANT InvTableInv
INVARIANT InvTableAgree
INVARIANT InvFamily
INVARIANT InvSteps
INVARIANT InvCarry
CHECK_DEADLOCK FALSE
