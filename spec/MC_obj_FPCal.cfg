SPECIFICATION Spec
CONSTANTS
  Kind = "FPCal"
  NI = 2
  MaxItems = 3
  MaxChan = 3
  Labels = {1}
  Chans = {0, 2, 1}
  Edits = FALSE
  AutoRule = "max"
INVARIANT InvConforms
INVARIANT InvAligned
INVARIANT InvDisjoint
CHECK_DEADLOCK FALSE
