SPECIFICATION Spec
CONSTANTS
  HDR = 2
  ENT = 1
  NH = 2
  N = 3
  Types = {1, 2}
  KS = {1, 2}
INVARIANT LostUpdate
CONSTRAINT Bound
CHECK_DEADLOCK FALSE
