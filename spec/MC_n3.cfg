SPECIFICATION Spec
CONSTANTS
  HDR = 2
  ENT = 1
  N = 3
  WT = {1, 2, 3}
  SetTypes = {1, 2, 3}
  OT = {7}
  KS = {1, 2}
  AddCs = {0, 9}
  RepCs <- RepCsSmall
  DescSel = {1,4,5,6,7,9,11,13,14,15,18,20}
  Readers = {}
  ImplicitModes <- ImplicitRb
INVARIANT InvWellFormed
INVARIANT InvFrame
INVARIANT InvCompact
INVARIANT InvUnique
INVARIANT InvNoLeak
INVARIANT InvTableInv
INVARIANT InvTableAgree
INVARIANT InvFamily
INVARIANT InvSteps
INVARIANT InvCarry
CHECK_DEADLOCK FALSE
