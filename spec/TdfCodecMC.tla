---------------------------- MODULE TdfCodecMC ----------------------------
(***************************************************************************)
(* Bounded domains of abstract blocks for every struct of the layout, the  *)
(* codec properties TLC checks on all of them, and the export of every     *)
(* enumerated block with the token stream / size / mutants the spec        *)
(* assigns it (the vectors lib/verif/codec.py replays on the real code).   *)
(***************************************************************************)
EXTENDS TdfCodec, Json, IOUtils

CONSTANTS Kinds,      \* which structs to enumerate in this run
          MaxF,       \* frames per track: 1..MaxF, all presence masks
          MaxItems,   \* 0..MaxItems tracks / signals / platforms / cameras / channels / events
          WithMutants \* also export the single-site mutants (C14)

AllKinds == {"Data3D", "EMG", "ForceTorque3D", "ForcePlatformsData", "ForcePlatformsCalibration", "Data2D",
             "CalibrationData", "OpticalSetup", "Events", "Header", "Entry"}
VARIABLES kind, fmt, b
vars == <<kind, fmt, b>>

Masks(n) == [1..n -> BOOLEAN]
\* sample ids: item t, frame i, component c
Frame(t, i, per) == [c \in 1..per |-> 1000 * t + 10 * i + c]
Frames(t, m, per) == [i \in 1..Len(m) |-> IF m[i] THEN Frame(t, i, per) ELSE <<>>]
Ids(base, n) == [i \in 1..n |-> base + i]

\* all sequences of length 0..k over set S
RECURSIVE SeqsUpTo(_, _)
SeqsUpTo(S, k) == IF k = 0 THEN {<<>>} ELSE SeqsUpTo(S, k - 1) \cup {Append(x, y) : x \in {z \in SeqsUpTo(S, k - 1) : Len(z) = k - 1}, y \in S}

\* lists of items: item t is drawn from ItemsAt(t)
RECURSIVE ListsOf(_, _)
ListsOf(ItemsAt(_), k) == IF k = 0 THEN {<<>>}
                          ELSE ListsOf(ItemsAt, k - 1) \cup {Append(x, y) : x \in {z \in ListsOf(ItemsAt, k - 1) : Len(z) = k - 1}, y \in ItemsAt(k)}

Geometry == [volume |-> Ids(10, 3), rotationMatrix |-> Ids(20, 9), translationVector |-> Ids(30, 3)]

Data3DBlocks ==
  UNION {
    { [nFrames |-> n, frequency |-> 101, startTime |-> 41, flag |-> fl, links |-> lk, tracks |-> ts] @@ Geometry
        : fl \in {0, 1},
          lk \in (IF fm = 1 THEN {<<>>, <<[a |-> 61, b |-> 62]>>, <<[a |-> 61, b |-> 62], [a |-> 63, b |-> 61]>>} ELSE {<<>>}),
          ts \in ListsOf(LAMBDA t : {[label |-> 50 + t, frames |-> Frames(t, m, 3)] : m \in Masks(n)}, MaxItems) }
    : n \in 1..MaxF, fm \in {1, 2} }
\* (flag is enumerated only together with fm to keep the product small)

EMGBlocks ==
  UNION {
    { [frequency |-> 101, startTime |-> 41, nSamples |-> n, chans |-> [t \in 1..Len(ts) |-> 70 + 2 * t],
       signals |-> ts]
        : ts \in ListsOf(LAMBDA t : {[label |-> 50 + t, frames |-> Frames(t, m, 1)] : m \in Masks(n)}, MaxItems) }
    : n \in 1..MaxF }

ForceBlocks ==
  UNION {
    { [frequency |-> 101, startTime |-> 41, nFrames |-> n, tracks |-> ts] @@ Geometry
        : ts \in ListsOf(LAMBDA t : {[label |-> 50 + t, frames |-> Frames(t, m, 9)] : m \in Masks(n)}, MaxItems) }
    : n \in 1..MaxF }

PlatDataBlocks ==
  UNION {
    { [frequency |-> 101, startTime |-> 41, nFrames |-> n, chans |-> [t \in 1..Len(ps) |-> 70 + 2 * t],
       platforms |-> ps]
        : ps \in ListsOf(LAMBDA t : {[frames |-> Frames(t, m, 6)] : m \in Masks(n)}, MaxItems) }
    : n \in 1..MaxF }

PlatCalBlocks ==
  { [chans |-> [t \in 1..k |-> 70 + 2 * t],
     platforms |-> [t \in 1..k |-> [label |-> 50 + t, size |-> Ids(100 * t, 2), position |-> Ids(100 * t + 10, 12)]]]
      : k \in 0..MaxItems }

Cells == {<<>>, << <<1, 2>> >>, << <<3, 4>>, <<5, 6>> >>}
Data2DBlocks ==
  UNION {
    { [nFrames |-> nF, frequency |-> 101, startTime |-> 41, flags |-> fl, camMap |-> [c \in 1..nC |-> 70 + 2 * c],
       data |-> [fr \in 1..nF |-> [c \in 1..nC |->
                   [p \in 1..Len(cell[fr][c]) |-> << 1000 * fr + 100 * c + cell[fr][c][p][1],
                                                      1000 * fr + 100 * c + cell[fr][c][p][2] >>]]]]
        : fl \in {0, 1}, cell \in [1..nF -> [1..nC -> Cells]] }
    : nF \in 1..2, nC \in 0..2 }

ViewPortOf(t) == [vp_origin |-> <<200 + t, 210 + t>>, vp_size |-> <<220 + t, 230 + t>>]
SeelabCam(t) == [rotation_matrix |-> Ids(1000 * t, 9), translation_vector |-> Ids(1000 * t + 10, 3),
                 focus |-> Ids(1000 * t + 20, 2), optical_center |-> Ids(1000 * t + 30, 2),
                 radial_distortion |-> Ids(1000 * t + 40, 2), decentering |-> Ids(1000 * t + 50, 2),
                 thin_prism |-> Ids(1000 * t + 60, 2)] @@ ViewPortOf(t)
BTSCam(t) == [rotation_matrix |-> Ids(1000 * t, 9), translation_vector |-> Ids(1000 * t + 10, 3),
              focus |-> Ids(1000 * t + 20, 2), optical_center |-> Ids(1000 * t + 30, 2),
              x_distortion_coefficients |-> Ids(1000 * t + 100, 70),
              y_distortion_coefficients |-> Ids(1000 * t + 200, 70)] @@ ViewPortOf(t)
CalibBlocks(fm) ==
  { [distorsion_model |-> dm, size |-> Ids(10, 3), rotationMatrix |-> Ids(20, 9), translationVector |-> Ids(30, 3),
     chans |-> [t \in 1..k |-> 70 + 2 * t],
     cams |-> [t \in 1..k |-> IF fm = 1 THEN SeelabCam(t) ELSE BTSCam(t)]]
      : k \in 0..MaxItems, dm \in {0, 3} }

OpticalBlocks ==
  { [channels |-> [t \in 1..k |-> [logical_camera_index |-> 80 + t, lens_name |-> 50 + t, camera_type |-> 53 + t,
                                   camera_name |-> 56 + t] @@ ViewPortOf(t)]]
      : k \in 0..MaxItems }

EventBlocks ==
  { [startTime |-> 41, events |-> es]
      : es \in ListsOf(LAMBDA t : {[label |-> 50 + t, type |-> 0, values |-> vs] : vs \in {<<>>, <<300 + t>>}}
                                  \cup {[label |-> 50 + t, type |-> 1, values |-> vs] : vs \in {<<>>, <<300 + t>>, <<300 + t, 310 + t>>}},
                       MaxItems) }

HeaderVals == { [signature |-> 1, version |-> 401, nEntries |-> 402, cdate |-> 403, mdate |-> 404, adate |-> 405] }
EntryVals  == { [type |-> ty, format |-> 412, offset |-> 413, size |-> 414, cdate |-> 415, mdate |-> 416,
                 adate |-> 417, comment |-> 50 + c] : c \in 1..2, ty \in {0, 5, 16} }

Formats(k) == CASE k = "Data3D" -> {1, 2} [] k = "CalibrationData" -> {1, 2}
                [] k \in {"ForcePlatformsCalibration", "Data2D"} -> {2} [] OTHER -> {1}

Domain(k, fm) ==
  CASE k = "Data3D" -> {x \in Data3DBlocks : (fm = 2 => x.links = <<>>)}
    [] k = "EMG" -> EMGBlocks
    [] k = "ForceTorque3D" -> ForceBlocks
    [] k = "ForcePlatformsData" -> PlatDataBlocks
    [] k = "ForcePlatformsCalibration" -> PlatCalBlocks
    [] k = "Data2D" -> Data2DBlocks
    [] k = "CalibrationData" -> CalibBlocks(fm)
    [] k = "OpticalSetup" -> OpticalBlocks
    [] k = "Events" -> EventBlocks
    [] k = "Header" -> HeaderVals
    [] k = "Entry" -> EntryVals

Init == /\ kind \in Kinds
        /\ fmt \in Formats(kind)
        /\ b \in Domain(kind, fmt)
Next == UNCHANGED vars
Spec == Init /\ [][Next]_vars

Toks == Encode(kind, b, fmt)

\* ---------------------------------------------------------------- properties
\* C01
RoundTrip == LET d == Decode(kind, Toks, fmt) IN
             /\ d.v = b
             /\ Encode(kind, d.v, fmt) = Toks
\* C02 (at token level: the decoder consumes exactly what the encoder produced)
SizeAgree == Decode(kind, Toks, fmt).used = Len(Toks)
\* the arithmetic size-from-shape function agrees with the size of the token stream,
\* and the set-based run finder with the recursive one (both are used on real-sized data)
ShapeSizeAgree == ShapeSize(kind, ShapeOf(kind, b, fmt), fmt) = Size(Toks)
RunsSetAgree ==
  \A j \in 1..Len(Layout[kind]) :
    LET f == Layout[kind][j] IN
    (f.k = "list" /\ \E q \in 1..Len(Layout[f.item]) : Layout[f.item][q].k = "rle") =>
       \A t \in 1..Len(b[f.name]) :
          LET m == MaskOf(b[f.name][t].frames)
              m01 == [i \in 1..Len(m) |-> IF m[i] THEN 1 ELSE 0] IN
          RunsSet(m01) = {Runs(m)[r] : r \in 1..Len(Runs(m))}
\* C05: the run table of every run-length coded field
RleFieldsOK ==
  \A j \in 1..Len(Layout[kind]) :
    LET f == Layout[kind][j] IN
    (f.k = "list" /\ \E q \in 1..Len(Layout[f.item]) : Layout[f.item][q].k = "rle") =>
       \A t \in 1..Len(b[f.name]) :
          LET m == MaskOf(b[f.name][t].frames) IN RunsWellFormed(m, Runs(m))
\* C06 / C12: the writer's don't-care content is zero; any other content decodes
\* to the same value and re-encodes to the canonical bytes
Canon == Canonical(Toks)
ScrambleInv == \A g \in {7, 255} :
                 LET d == Decode(kind, Scramble(Toks, g), fmt) IN
                 d.v = b /\ d.used = Len(Toks) /\ Encode(kind, d.v, fmt) = Toks
\* C14: every single-site mutant is a different abstract value and encodes differently
MutantsDiffer == WithMutants => \A m \in Mutants(kind, b, fmt) : m # b /\ Encode(kind, m, fmt) # Toks

\* ---------------------------------------------------------------- export
Emit == PrintT("VEC " \o ToJson([kind |-> kind, fmt |-> fmt, b |-> b, toks |-> Toks, size |-> Size(Toks),
                                  mutants |-> IF WithMutants THEN SetToSeq(Mutants(kind, b, fmt)) ELSE <<>>]))

\* the layout table itself, for the Python interpreter (lib/verif/layout_interp.py)
ASSUME ("LAYOUT_OUT" \in DOMAIN IOEnv) =>
          JsonSerialize(IOEnv.LAYOUT_OUT, [layout |-> Layout, blocks |-> BlockStructs])
=============================================================================
