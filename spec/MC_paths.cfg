SPECIFICATION Spec
CONSTANTS
  Paths = {1, 2, 3}
  MaxCid = 6
INVARIANT InvAllowed
PROPERTY NeverClobber
PROPERTY KindsStable
CHECK_DEADLOCK FALSE
