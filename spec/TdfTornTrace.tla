---------------------------- MODULE TdfTornTrace ----------------------------
(***************************************************************************)
(* Replay of TdfTorn on the real library (lib/verif/torn.py).  The harness *)
(* records, per accepted add / remove / replace, the pieces the library    *)
(* hands to its file handle (position, length; contiguous writes joined,   *)
(* as the buffered handle joins them) and rebuilds the file after every    *)
(* prefix of them - the files a crash can leave behind.  Here the program  *)
(* of effects predicted by TdfTornCore is compared with the recorded one   *)
(* (conf:t_effects) and every predicted crash-point file with the rebuilt  *)
(* one: table (conf:t_torn_table), length (conf:t_torn_len); the predicted *)
(* byte layouts are printed and compared with the real bytes by the        *)
(* harness (conf:t_bytes).  Real geometry.  All clauses are "conf:".       *)
(***************************************************************************)
EXTENDS TdfTornCore, TLC, Json, IOUtils, SequencesExt

Traces == JsonDeserialize(IOEnv.TRACE_FILE)

VARIABLES tid, l, disk, cl, dead, lay
vars == <<tid, l, disk, cl, dead, lay>>
T == Traces[tid]

Row(r) == [type |-> r[1], format |-> r[2], offset |-> r[3], size |-> r[4],
           comment |-> r[5], cdate |-> r[6], mdate |-> r[7]]
AbsTable(rows) == [i \in 1..Len(rows) |-> Row(rows[i])]
AbsData(ex) == [i \in 1..Len(ex) |-> [u |-> ex[i][1], lo |-> ex[i][2], hi |-> ex[i][3]]]
CanonT(tb) == [i \in 1..Len(tb) |-> IF tb[i].type = 0 THEN Unused(tb[i].offset) ELSE tb[i]]
If(c, name) == IF c THEN {name} ELSE {}

Init == /\ tid \in 1..Len(Traces)
        /\ l = 1
        /\ disk = [n |-> T.init.n, sigok |-> TRUE, version |-> 1, table |-> CanonT(AbsTable(T.init.table)),
                   data |-> AbsData(T.init.data)]
        /\ cl = {}
        /\ dead = FALSE
        /\ lay = <<>>

BlkOf(ev) == [t |-> ev.t, fmt |-> ev.fmt, u |-> ev.u, sz |-> ev.sz, c |-> ev.c, cd |-> ev.cd, md |-> ev.md]

\* the predicted program; <<>> together with ok = FALSE for a refused call
Prog(ev) ==
  LET M == disk.table IN
  CASE ev.op = "add"     -> IF AddCauses(M, BlkOf(ev)) # {} THEN [ok |-> FALSE, p |-> <<>>]
                            ELSE [ok |-> TRUE, p |-> AddProg(M, disk, BlkOf(ev))]
    [] ev.op = "replace" -> IF RepCauses(M, BlkOf(ev)) # {} THEN [ok |-> FALSE, p |-> <<>>]
                            ELSE [ok |-> TRUE, p |-> RepProg(M, disk, BlkOf(ev))]
    [] ev.op = "remove"  -> IF RemCauses(M, ev.t) # {} THEN [ok |-> FALSE, p |-> <<>>]
                            ELSE [ok |-> TRUE, p |-> RemProg(M, disk, ev.t)]

\* what the harness can see of an effect: kind, position, length.  D is the file the effect meets.
Sig(D, x) == CASE x.k = "ent" -> <<"ent", x.i, 0>>
               [] x.k = "dat" -> <<"dat", x.off, x.sz>>
               [] x.k = "mov" -> <<"mov", x.dst, FileLen(D) - x.src>>
               [] x.k = "cut" -> <<"cut", x.at, 0>>

LayOf(D) == [i \in 1..Len(D.data) |-> <<D.data[i].u, D.data[i].lo, D.data[i].hi>>]

Step ==
  /\ ~dead /\ l <= Len(T.steps)
  /\ LET ev == T.steps[l]
         pr == Prog(ev)
         n  == Len(pr.p)
         \* the files after 0, 1, ..., n effects
         D[j \in 0..n] == IF j = 0 THEN disk ELSE Apply(D[j - 1], pr.p[j])
         same == Len(ev.effs) = n
         cs == If(ev.ok # pr.ok, "conf:t_outcome")
               \cup If(~same \/ (same /\ \E j \in 1..n : <<ev.effs[j][1], ev.effs[j][2], ev.effs[j][3]>> # Sig(D[j - 1], pr.p[j])), "conf:t_effects")
               \cup If(same /\ \E j \in 1..n : CanonT(AbsTable(ev.torn[j].table)) # CanonT(D[j].table), "conf:t_torn_table")
               \cup If(same /\ \E j \in 1..n : ev.torn[j].flen # FileLen(D[j]), "conf:t_torn_len")
               \cup If(same /\ ev.half.at > 0 /\ ev.half.flen # FileLen(Tear(D[ev.half.at - 1], pr.p[ev.half.at], ev.half.j)), "conf:t_half_len")
     IN /\ disk' = D[n]
        /\ cl' = cl \cup {<<l, c>> : c \in cs}
        /\ dead' = (cs # {})
        /\ lay' = Append(lay, [crash |-> [j \in 1..n |-> LayOf(D[j])],
                               half  |-> IF same /\ ev.half.at > 0
                                         THEN LayOf(Tear(D[ev.half.at - 1], pr.p[ev.half.at], ev.half.j)) ELSE <<>>])
  /\ l' = l + 1
  /\ UNCHANGED tid

Spec == Init /\ [][Step]_vars

Finished == dead \/ l > Len(T.steps)
Report == IF Finished
          THEN PrintT("END " \o ToJson([tid |-> tid, l |-> l - 1, cl |-> SetToSeq({<<c[1], c[2]>> : c \in cl}), lay |-> lay]))
          ELSE TRUE
=============================================================================
