--------------------------- MODULE TdfObjectsCore ---------------------------
(***************************************************************************)
(* Block objects as editable lists (C15 C16 C18 C20).                      *)
(*                                                                         *)
(* An instance is  [ex, items, chans, aux]                                 *)
(*    ex     the instance exists                                           *)
(*    items  sequence of [id, label, val]  (id = identity of the item      *)
(*           object, val = identity of its CONTENT: samples, geometry)     *)
(*    chans  sequence of channel numbers, parallel to items, for the       *)
(*           channel-mapped kinds (EMG, platform calibration, platform     *)
(*           data); <<>> for the others                                    *)
(* A world is a function  instance number -> instance.                     *)
(*                                                                         *)
(* Calls (records o):                                                      *)
(*   construct  i, xs (items handed to the constructor, <<>> = none)       *)
(*   decode     i, j (j := decode of the encoding of i)                    *)
(*   add        i, x, good, c   (c = Auto for an automatic channel)        *)
(*   remove     i, by ("label" | "index" | "item"), key                    *)
(*   assign     i, xs (each [id, label, good]), cs (channels, FPCal pairs) *)
(*   bulk_add   i, xs, cs (<<>> = automatic)     bulk_remove i, ks         *)
(*   lookup     i, what, key                     encode i                  *)
(*                                                                         *)
(* Step(kind, w, o, w2, r) is the set of names of the clauses that the     *)
(* observed step  w --o--> w2  with result r violates.  r = [ok, exc, val] *)
(* (exc: the exception class names, val: the value a lookup returned).     *)
(***************************************************************************)
EXTENDS Integers, Sequences, FiniteSets, TLC

Auto == -1
ChanKinds   == {"EMG", "FPCal", "FPData"}
\* "EMG0" = an EMG block of zero samples: it cannot be encoded, so its channel map
\* (which has no public reader) is not observable; everything else is
LengthKinds == {"EMG", "EMG0", "Data3D", "Force"}          \* kinds whose items carry a frame count (C16)
IndexKinds  == {"EMG", "EMG0", "Data3D", "Force", "Events"} \* kinds with index / label lookup (C18)

\* aux: a count of auxiliary per-block content that is not an item (the marker links
\* of a 3D block); 0 for the other kinds
\* szok: the size the block declares equals the size of its encoding (observed by the
\* harness; TRUE in the model)
\* lenok: every item has the frame count of the block (observed; TRUE in the model)
NoInst == [ex |-> FALSE, items |-> <<>>, chans |-> <<>>, aux |-> 0, szok |-> TRUE, lenok |-> TRUE]

Ids(inst)    == {inst.items[k].id : k \in 1..Len(inst.items)}
Range(s)     == {s[k] : k \in 1..Len(s)}
PosOf(inst, id) == CHOOSE k \in 1..Len(inst.items) : inst.items[k].id = id
ChanOf(inst, id) == inst.chans[PosOf(inst, id)]
Strip(xs)    == [k \in 1..Len(xs) |-> [id |-> xs[k].id, label |-> xs[k].label, val |-> xs[k].val]]
RemoveAt(s, k) == [j \in 1..(Len(s) - 1) |-> IF j < k THEN s[j] ELSE s[j + 1]]

If(c, name) == IF c THEN {name} ELSE {}
\* (channel, label) pairs of an instance, flattened: <<c1, l1, c2, l2, ...>>
Pairs(inst) == [k \in 1..(2 * Len(inst.items)) |-> IF k % 2 = 1 THEN inst.chans[(k + 1) \div 2] ELSE inst.items[k \div 2].label]
HasExc(r, name) == \E k \in 1..Len(r.exc) : r.exc[k] = name

\* ---------------------------------------------------------------- state clauses
\* C15: the two lists have the same length, channels are unique
Aligned(kind, inst) == kind \in ChanKinds => Len(inst.chans) = Len(inst.items)
Unique(inst) == \A a, b \in 1..Len(inst.chans) : inst.chans[a] = inst.chans[b] => a = b
\* C15: an item present before and after keeps its channel
Sticky(kind, a, b) == kind \in ChanKinds /\ Len(a.chans) = Len(a.items) /\ Len(b.chans) = Len(b.items) =>
                        \A id \in Ids(a) \cap Ids(b) : ChanOf(a, id) = ChanOf(b, id)

StateClauses(kind, a, b) ==
     \* (~szok: the declared size of the block differs from the size of its encoding - for a
     \* channel-mapped block the sign of a channel map that is longer or shorter than the item
     \* list, which pair iteration would hide)
     If(b.ex /\ (~Aligned(kind, b) \/ (kind \in ChanKinds /\ ~b.szok)), "C15:misaligned")
  \cup If(b.ex /\ ~b.szok, "C02:declared_size_after_edits")
  \* C16: no item of another frame count inside a block, however it got there
  \cup If(b.ex /\ kind \in LengthKinds /\ ~b.lenok, "C16:wrong_length_item_present")
  \cup If(b.ex /\ kind \in ChanKinds /\ ~Unique(b), "C15:duplicate_channel")
  \cup If(a.ex /\ b.ex /\ ~Sticky(kind, a, b), "C15:channel_moved")

\* ---------------------------------------------------------------- per call
\* everything but instance i is untouched (C20)
\* (once the caller has put the same item objects into two blocks - share_ok - editing the
\* content of such an item legitimately shows in both: contents are then not compared)
NoVal(inst) == [inst EXCEPT !.items = [k \in 1..Len(inst.items) |-> [inst.items[k] EXCEPT !.val = 0]]]
OthersSameS(w, w2, I, shared) == \A j \in DOMAIN w : j \notin I =>
                                   IF shared THEN NoVal(w2[j]) = NoVal(w[j]) ELSE w2[j] = w[j]
OthersSame(w, w2, I) == OthersSameS(w, w2, I, FALSE)
\* a decode may also fill a "twin" slot: the same bytes decoded a second time
Touched(o) == IF o.op = "decode" THEN {o.j} \cup (IF "twin" \in DOMAIN o THEN {o.twin} ELSE {}) ELSE {o.i}

AddClauses(kind, a, b, o, r) ==
  LET x == [id |-> o.x.id, label |-> o.x.label, val |-> o.x.val]
      appended == b.items = Append(a.items, x) IN
  IF ~o.good THEN
       \* C16: an item of the wrong length or kind is refused, block unchanged
       If(kind \in LengthKinds /\ (r.ok \/ b # a), "C16:bad_item_accepted")
  ELSE IF kind \in ChanKinds /\ o.c # Auto /\ o.c \in Range(a.chans) THEN
       If(r.ok \/ b # a, "C15:taken_channel_accepted") \cup If(~r.ok /\ ~HasExc(r, "ValueError"), "C15:taken_channel_not_valueerror")
  ELSE IF kind \in ChanKinds /\ o.c # Auto THEN
       If(~r.ok \/ ~appended \/ b.chans # Append(a.chans, o.c), "C15:explicit_channel_not_honoured")
  ELSE IF kind \in ChanKinds THEN
       \* automatic: a channel not in use, or refused with the block unchanged
       IF r.ok THEN If(~appended \/ Len(b.chans) # Len(a.chans) + 1 \/ SubSeq(b.chans, 1, Len(a.chans)) # a.chans
                        \/ (Len(b.chans) = Len(a.chans) + 1 /\ b.chans[Len(b.chans)] \in Range(a.chans)), "C15:auto_channel")
       ELSE If(b # a, "C15:refused_add_changed_block")
  ELSE If(~r.ok \/ ~appended, "conf:add")

RemoveClauses(kind, a, b, o, r) ==
  LET n == Len(a.items)
      Cands == IF o.by = "label" THEN {k \in 1..n : a.items[k].label = o.key}
               ELSE IF o.by = "index" THEN (IF o.key >= 0 /\ o.key < n THEN {o.key + 1} ELSE {})
               ELSE {k \in 1..n : a.items[k].id = o.key}
      Removed(k) == b.items = RemoveAt(a.items, k) /\ (kind \in ChanKinds => b.chans = RemoveAt(a.chans, k))
  IN IF o.by = "index" /\ o.key < 0 THEN {}                   \* negative indices: not specified
     \* (C15 speaks about the channel-mapped kinds; for the others - plain Python lists behind a
     \* public attribute - the removal itself is only conformance, what counts is that the OTHER
     \* blocks stay as they are: C20, OthersSame)
     ELSE IF Cands = {} THEN If(b # a, IF kind \in ChanKinds THEN "C15:remove_of_absent" ELSE "conf:remove_of_absent")
     ELSE If(~r.ok \/ ~\E k \in Cands : Removed(k), IF kind \in ChanKinds THEN "C15:remove" ELSE "conf:remove")

\* whole-list assignment
AssignClauses(kind, a, b, o, r) ==
  IF kind \in {"Data3D", "Force"} THEN
       \* C16: all or nothing
       IF \A k \in 1..Len(o.xs) : o.xs[k].good
       THEN If(~r.ok \/ b.items # Strip(o.xs), "C16:assignment_not_installed")
       ELSE If(r.ok \/ b # a, "C16:assignment_not_all_or_nothing")
  ELSE IF kind = "FPCal" /\ Len(o.cs) = Len(o.xs) THEN
       \* (channel, platform) pairs: an assignment that succeeds honoured every explicit channel
       If(r.ok /\ (\A k \in 1..Len(o.xs) : o.xs[k].good)
               /\ (b.chans # o.cs \/ b.items # Strip(o.xs)), "C15:explicit_channel_not_honoured")
  ELSE {}   \* other channel-mapped kinds: only the state clauses (alignment, uniqueness, stickiness)

\* sequential bulk operations: some prefix was applied; success means all of it
RECURSIVE AddAll(_, _, _, _)
AddAll(inst, xs, cs, k) ==   \* first k elements added with explicit channels
  IF k = 0 THEN inst
  ELSE LET p == AddAll(inst, xs, cs, k - 1) IN
       [p EXCEPT !.items = Append(@, [id |-> xs[k].id, label |-> xs[k].label, val |-> xs[k].val]), !.chans = Append(@, cs[k])]
BulkAddClauses(kind, a, b, o, r) ==
  IF o.cs = <<>> THEN \* automatic channels
       If(r.ok /\ (Len(b.items) # Len(a.items) + Len(o.xs) \/ SubSeq(b.items, 1, Len(a.items)) # a.items), "C15:bulk_add")
  ELSE LET m == IF Len(o.xs) < Len(o.cs) THEN Len(o.xs) ELSE Len(o.cs) IN
       If(~\E k \in 0..m : b = AddAll(a, o.xs, o.cs, k), "C15:bulk_add")
       \cup If(r.ok /\ b # AddAll(a, o.xs, o.cs, m)
                 /\ \A k \in 1..m : o.cs[k] \notin Range(a.chans) /\ \A j \in 1..(k - 1) : o.cs[j] # o.cs[k], "C15:bulk_add")

\* sequential removal by index: some valid prefix was applied; success means all of it
RECURSIVE RemSeq(_, _, _)
RemSeq(inst, ks, n) ==
  IF n = 0 THEN inst
  ELSE LET p == RemSeq(inst, ks, n - 1) IN
       IF ks[n] >= 0 /\ ks[n] < Len(p.items)
       THEN [p EXCEPT !.items = RemoveAt(@, ks[n] + 1), !.chans = RemoveAt(@, ks[n] + 1)]
       ELSE p
RECURSIVE ValidPrefix(_, _, _)
ValidPrefix(inst, ks, n) == n = 0 \/ (ValidPrefix(inst, ks, n - 1) /\ ks[n] >= 0 /\ ks[n] < Len(RemSeq(inst, ks, n - 1).items))
BulkRemoveClauses(kind, a, b, o, r) ==
  If(~\E n \in 0..Len(o.ks) : ValidPrefix(a, o.ks, n) /\ b = RemSeq(a, o.ks, n)
                               /\ (r.ok => n = Len(o.ks))
                               /\ (~r.ok => (n = Len(o.ks) \/ ~ValidPrefix(a, o.ks, n + 1))), "C15:bulk_remove")

LookupClauses(kind, a, o, r) ==
  LET n == Len(a.items) IN
  CASE o.what = "len"  -> If(~r.ok \/ r.val # <<n>>, "C18:len")
    [] o.what = "iter" -> If(~r.ok \/ r.val # [k \in 1..n |-> a.items[k].id], "C18:iter")
    [] o.what = "index" ->
         IF o.key >= 0 /\ o.key < n THEN If(~r.ok \/ r.val # <<a.items[o.key + 1].id>>, "C18:index")
         ELSE IF o.key >= n \/ o.key < 0 - n THEN If(r.ok, "C18:index_out_of_range")
         \* a negative position inside the range: the statement fixes positions 0..n-1 only, so a refusal
         \* is not judged - but an answer must be the item Python's convention designates, not another
         ELSE If(r.ok /\ r.val # <<a.items[n + o.key + 1].id>>, "C18:index")
    [] o.what = "label" ->
         IF \E k \in 1..n : a.items[k].label = o.key
         THEN LET k == CHOOSE k \in 1..n : a.items[k].label = o.key /\ \A j \in 1..(k - 1) : a.items[j].label # o.key
              IN If(~r.ok \/ r.val # <<a.items[k].id>>, "C18:label_lookup")
         ELSE If(r.ok \/ ~HasExc(r, "KeyError"), "C18:absent_label")
    [] o.what = "contains" -> If(~r.ok \/ (r.val = <<1>>) # (\E k \in 1..n : a.items[k].label = o.key), "C18:contains")
    [] o.what = "badkey" -> If(r.ok \/ ~HasExc(r, "TypeError"), "C18:unsupported_key")
    [] OTHER -> {}

\* the encoding lists (channel, label) pairs in order
EncodeClauses(kind, a, r) ==
  If(kind \in ChanKinds /\ Len(a.chans) = Len(a.items) /\ (~r.ok \/ r.val # Pairs(a)), "C15:encoded_pairs")

Step(kind, w, o, w2, r) ==
  LET i == o.i  a == w[i]  b == w2[i] IN
  \* C20: nobody else is touched; a lookup or an encoding touches nobody
  If(~OthersSameS(w, w2, Touched(o), o.share_ok), "C20:other_instance_changed")
  \* C20: no item object lives in two instances
  \* (unless the caller itself put the same item objects into two blocks: o.share_ok)
  \cup If(~o.share_ok /\ \E p, q \in DOMAIN w2 : p # q /\ Ids(w2[p]) \cap Ids(w2[q]) # {}, "C20:instances_share_items")
  \* C16 for every block, not only the one the call was made on (an item can arrive through a
  \* container that two blocks share)
  \cup If(kind \in LengthKinds /\ \E p \in DOMAIN w2 : w2[p].ex /\ ~w2[p].lenok, "C16:wrong_length_item_present")
  \* ... and C15 / C02 likewise: item list and channel list of EVERY block have the same length,
  \* channels are unique, the declared size is the encoded size
  \cup If(\E p \in DOMAIN w2 : w2[p].ex /\ (~Aligned(kind, w2[p]) \/ (kind \in ChanKinds /\ ~w2[p].szok)), "C15:misaligned")
  \cup If(kind \in ChanKinds /\ \E p \in DOMAIN w2 : w2[p].ex /\ ~Unique(w2[p]), "C15:duplicate_channel")
  \cup If(\E p \in DOMAIN w2 : w2[p].ex /\ ~w2[p].szok, "C02:declared_size_after_edits")
  \* C20: what a lookup in one block returns is an item of that block, not an equal-looking item of another
  \cup If(o.op = "lookup" /\ o.what \in {"label", "index"} /\ r.ok /\ Len(r.val) = 1 /\ r.val[1] \notin Ids(a)
            /\ \E p \in DOMAIN w \ {i} : r.val[1] \in Ids(w[p]), "C20:lookup_returned_item_of_other_block")
  \cup If(o.op \in {"lookup", "encode"} /\ w2 # w, IF o.op = "lookup" THEN "C18:lookup_changed_block" ELSE "C20:encode_changed_block")
  \cup (IF o.op = "decode" THEN StateClauses(kind, NoInst, w2[o.j]) ELSE StateClauses(kind, a, b))
  \cup (CASE o.op = "construct" ->
               \* C20: a block built without items is empty whatever happened before
               If(~r.ok \/ ~b.ex \/ b.items # Strip(o.xs) \/ b.aux # 0, "C20:constructed_not_as_given")
          [] o.op = "decode" ->
               LET d == w2[o.j] IN
               If(~r.ok \/ ~d.ex \/ Len(d.items) # Len(a.items)
                    \/ (Len(d.items) = Len(a.items) /\ \E k \in 1..Len(a.items) : d.items[k].label # a.items[k].label)
                    \/ (kind \in ChanKinds /\ d.chans # a.chans), "C15:decoded_differs")
               \cup If(r.ok /\ d.ex /\ d.aux # a.aux, "C20:decoded_aux_differs")
               \cup If(d.ex /\ Ids(d) \cap Ids(a) # {}, "C20:decoded_shares_items")
               \cup If(o.j # i /\ w2[i] # a, "C20:decode_changed_source")
               \cup If("twin" \in DOMAIN o /\ r.ok /\ (LET t == w2[o.twin] IN
                          ~t.ex \/ Len(t.items) # Len(d.items) \/ t.chans # d.chans \/ t.aux # d.aux
                          \* the same bytes decoded twice: the same content, item by item
                          \/ (Len(t.items) = Len(d.items) /\ \E k \in 1..Len(d.items) : t.items[k].val # d.items[k].val)),
                       "C20:second_decode_differs")
          [] o.op = "add"         -> AddClauses(kind, a, b, o, r)
          [] o.op = "remove"      -> RemoveClauses(kind, a, b, o, r)
          [] o.op = "assign"      -> AssignClauses(kind, a, b, o, r)
          [] o.op = "bulk_add"    -> BulkAddClauses(kind, a, b, o, r)
          [] o.op = "bulk_remove" -> BulkRemoveClauses(kind, a, b, o, r)
          [] o.op = "lookup"      -> LookupClauses(kind, a, o, r)
          [] o.op = "encode"      -> EncodeClauses(kind, a, r)
          [] o.op = "aux"         -> If(~r.ok \/ b # [a EXCEPT !.aux = @ + 1], "C20:aux_edit")
          \* the content of ONE item edited in place: that item's content changes, nothing else
          [] o.op = "edit"        -> If(~r.ok \/ Len(b.items) # Len(a.items)
                                         \/ (Len(b.items) = Len(a.items) /\ \E k \in 1..Len(a.items) :
                                               IF k = o.pos THEN b.items[k].val = a.items[k].val \/ b.items[k].id # a.items[k].id
                                               ELSE b.items[k] # a.items[k])
                                         \/ b.chans # a.chans, "C20:edit_leaked_within_block")
          \* the item list read from block j through its public getter is assigned to block i: i
          \* then holds j's items (the caller shares the item OBJECTS), j is untouched - and stays
          \* untouched by whatever is done to i afterwards (OthersSame on the following calls)
          \* the block's own list, a generator over it, reversed(reversed(...)): "installs exactly that list"
          \* (platform calibration: the (channel, platform) pairs read from the block, lazily, assigned back:
          \* every one of those explicit channels is honoured - the block is what it was)
          [] o.op = "assign_self" -> If(~r.ok \/ b # a, IF kind = "FPCal" THEN "C15:explicit_channel_not_honoured"
                                                       ELSE "C16:self_assignment_changed_tracks")
          [] o.op = "assign_from" /\ ~o.compat -> If(r.ok \/ b # a, "C16:wrong_length_assign_accepted")
          [] o.op = "assign_from" -> If(~r.ok \/ Len(b.items) # Len(w[o.j].items)
                                         \/ (Len(b.items) = Len(w[o.j].items) /\ \E k \in 1..Len(b.items) :
                                                b.items[k].label # w[o.j].items[k].label), "C20:assign_from")
          \* the harness changes a list it handed to the block earlier: no block may notice
          [] o.op = "poke"        -> If(w2 # w, "C20:caller_list_aliased")
          \* the library raised while the driver was building valid items / blocks for the next call
          [] o.op = "setup_failed" -> {"ANY:valid_input_refused"}
          \* the calls made on block i since its construction were made again, alone, on a new block:
          \* it must end up with the same labels, channels and auxiliary data - what a block becomes
          \* depends on its own history only, not on what other blocks went through meanwhile
          [] o.op = "solo"        -> If(~o.same, "C20:depends_on_other_instances")
          [] OTHER -> {})
=============================================================================
