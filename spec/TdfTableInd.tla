---------------------------- MODULE TdfTableInd ----------------------------
(***************************************************************************)
(* Table-only abstraction of the container for an UNBOUNDED-size argument  *)
(* with Apalache: the jump table of N = 14 slots as three integer          *)
(* functions (type, offset, size) and the file length; no payload          *)
(* identities, no extents.  AddT / RemT are TdfFile!AddFile / RemoveFile   *)
(* restricted to the table (MCSession checks with TLC that they agree,     *)
(* invariant InvTableAgree).                                               *)
(*                                                                         *)
(* IndInv is inductive:  IndInit => IndInv  and  IndInv /\ Next => IndInv' *)
(* are discharged by Apalache for arbitrary block sizes and offsets        *)
(* (bin/apalache-ind).  IndInv implies the structural soundness of C03     *)
(* (ranges inside the file, no overlap, unused size zero) for every        *)
(* history of adds and removes on any file of the explored family, for the *)
(* table length the library itself creates.                                *)
(***************************************************************************)
EXTENDS Integers

N == 14
TE == 64 + 288 * N
Slots == 1..N

VARIABLES
  \* @type: Int -> Int;
  ty,
  \* @type: Int -> Int;
  off,
  \* @type: Int -> Int;
  sz,
  \* @type: Int;
  flen

Live(i) == ty[i] # 0
EndOf(i) == off[i] + sz[i]

TypeOK == /\ ty \in [Slots -> 0..16] /\ off \in [Slots -> Int] /\ sz \in [Slots -> Int] /\ flen \in Int

\* C03 on the table
Sound == /\ \A i \in Slots : Live(i) => (sz[i] > 0 /\ TE <= off[i] /\ EndOf(i) <= flen)
         /\ \A i \in Slots : \A j \in Slots : (i # j /\ Live(i) /\ Live(j)) => (EndOf(i) <= off[j] \/ EndOf(j) <= off[i])
         /\ \A i \in Slots : ~Live(i) => sz[i] = 0
\* the explored family: free slots point at or beyond the end of every live range, inside the file
Family == /\ \A i \in Slots : \A j \in Slots : (~Live(i) /\ Live(j)) => EndOf(j) <= off[i]
          /\ \A i \in Slots : ~Live(i) => (TE <= off[i] /\ off[i] <= flen)
          /\ flen >= TE
Unique == \A i \in Slots : \A j \in Slots : (Live(i) /\ Live(j) /\ ty[i] = ty[j]) => i = j

IndInv == TypeOK /\ Sound /\ Family /\ Unique

\* every well-formed file of the family is an initial state
IndInit == IndInv

\* add: first unused slot k, all later slots unused; entry at off[k]; later slots re-pointed
AddT(t, s) ==
  /\ t \in 1..16 /\ s > 0
  /\ \A i \in Slots : ty[i] # t
  /\ \E k \in Slots :
       /\ ~Live(k) /\ \A j \in Slots : j < k => Live(j)
       /\ \A j \in Slots : j > k => ~Live(j)
       /\ ty' = [ty EXCEPT ![k] = t]
       /\ sz' = [sz EXCEPT ![k] = s]
       /\ off' = [i \in Slots |-> IF i > k THEN off[k] + s ELSE off[i]]
       /\ flen' = IF off[k] + s > flen THEN off[k] + s ELSE flen

\* remove: entry k deleted, later table entries move up one slot, every entry stored behind
\* the removed block shifted down by its size, new unused slot at the end of the remaining data
RemT(t) ==
  \E k \in Slots :
    /\ ty[k] = t /\ t # 0
    /\ LET Src(i) == IF i < k THEN i ELSE i + 1
           Down(o) == IF o > off[k] THEN o - sz[k] ELSE o
       IN /\ ty' = [i \in Slots |-> IF i = N THEN 0 ELSE ty[Src(i)]]
          /\ sz' = [i \in Slots |-> IF i = N THEN 0 ELSE sz[Src(i)]]
          /\ \E newoff \in Int :
               /\ \A i \in Slots : i < N => newoff >= Down(off[Src(i)]) + sz[Src(i)]
               /\ (\A i \in Slots : i < N => FALSE) \/ newoff >= TE
               /\ (\E i \in Slots : i < N /\ newoff = Down(off[Src(i)]) + sz[Src(i)]) \/ newoff = TE
               /\ off' = [i \in Slots |-> IF i = N THEN newoff ELSE Down(off[Src(i)])]
          /\ flen' = flen - sz[k]

Next == \/ \E t \in 1..16 : \E s \in 1..1000000000 : AddT(t, s)
        \/ \E t \in 1..16 : RemT(t)

Init == IndInit
=============================================================================
