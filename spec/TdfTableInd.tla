---------------------------- MODULE TdfTableInd ----------------------------
(***************************************************************************)
(* Unbounded-size argument for C03 with Apalache (bin/apalache-ind):       *)
(* the transition system whose steps are TdfTableRel!AddRel / RemRel, for  *)
(* the table length the library creates (N = 14) and ARBITRARY integer     *)
(* offsets and sizes.  IndInv is inductive:                                *)
(*    IndInit => IndInv,   IndInv /\ Next => IndInv'   (--length=1)        *)
(* and IndInv => EndFitsInv (--length=0), which shows that the offset the  *)
(* code gives the new unused slot (the maximum end of what is left) is one *)
(* of the values RemRel admits.  IndInv implies the structural soundness   *)
(* of C03 (ranges inside the file, no overlap, unused size zero).          *)
(***************************************************************************)
EXTENDS Integers

N == 14
TE == 64 + 288 * N

VARIABLES
  \* @type: {ty: Int -> Int, off: Int -> Int, sz: Int -> Int, flen: Int};
  x

R == INSTANCE TdfTableRel WITH N <- N, TE <- TE

Tables == [ty : [1..N -> 0..16], off : [1..N -> Int], sz : [1..N -> Int], flen : Int]
TypeOK == x \in Tables
IndInv == TypeOK /\ R!TInv(x)
IndInit == x \in Tables /\ R!TInv(x)
EndFitsInv == R!EndFits(x)

Next == \E y \in Tables :
          /\ \/ \E t \in 1..16 : \E s \in 1..2000000000 : R!AddRel(x, y, t, s)
             \/ \E t \in 1..16 : R!RemRel(x, y, t)
          /\ x' = y
Init == IndInit
=============================================================================
