------------------------------ MODULE TdfCtor ------------------------------
(***************************************************************************)
(* Constructor shape checks (C19) as a decision table.  An argument is     *)
(* described by its kind and shape; for every validated constructor        *)
(* parameter the table says whether such an argument MUST be accepted,     *)
(* MUST be refused (an error at construction time), or is left open.       *)
(* TLC enumerates every (parameter, argument descriptor) pair - all shapes *)
(* of rank 0..3 with extents 0..4 - and exports the verdicts; the harness  *)
(* (lib/verif/ctor.py) builds the real argument and calls the real         *)
(* constructor.                                                            *)
(***************************************************************************)
EXTENDS Integers, Sequences, FiniteSets, TLC, Json

CONSTANTS MaxRank, MaxExt

RECURSIVE ShapesOf(_)
ShapesOf(r) == IF r = 0 THEN {<<>>}
               ELSE ShapesOf(r - 1) \cup {Append(x, e) : x \in {y \in ShapesOf(r - 1) : Len(y) = r - 1}, e \in 0..MaxExt}
Shapes == ShapesOf(MaxRank)

\* kinds of argument: arrays (3 dtypes), nested lists / tuples of a given shape,
\* and objects without a shape
ArrayKinds == {"ndarray_f4", "ndarray_f8", "ndarray_i4"}
SeqKinds   == {"list", "tuple"}
Shapeless  == {"none", "str", "int", "float", "viewport"}
Args == {[k |-> k, shape |-> sh] : k \in ArrayKinds, sh \in Shapes}
        \cup {[k |-> k, shape |-> sh] : k \in SeqKinds, sh \in Shapes \ {<<>>}}
        \cup {[k |-> k, shape |-> <<>>] : k \in Shapeless}
IsArray(a) == a.k \in ArrayKinds

\* parameters with a fixed required shape that must be a numpy array
Fixed == [
  Data3D_volume |-> <<3>>, Data3D_rotationMatrix |-> <<3, 3>>, Data3D_translationVector |-> <<3>>,
  Force_volume |-> <<3>>, Force_rotationMatrix |-> <<3, 3>>, Force_translationVector |-> <<3>>,
  Calib_size |-> <<3>>, Calib_rotationMatrix |-> <<3, 3>>, Calib_translationVector |-> <<3>>,
  Seelab_rotation_matrix |-> <<3, 3>>, Seelab_translation_vector |-> <<3>>, Seelab_focus |-> <<2>>,
  Seelab_optical_center |-> <<2>>, Seelab_radial_distortion |-> <<2>>, Seelab_decentering |-> <<2>>,
  Seelab_thin_prism |-> <<2>> ]
\* parameters that take a CameraViewPort or a (2,2) array
ViewPortParams == {"Seelab_view_port", "BTS_view_port", "Optical_camera_viewport"}
\* the two components of a viewport: array, list or tuple of exactly two elements
VecParams == {"ViewPort_origin", "ViewPort_size"}
Params == DOMAIN Fixed \cup ViewPortParams \cup VecParams

MustAccept(p, a) ==
  \/ p \in DOMAIN Fixed /\ IsArray(a) /\ a.shape = Fixed[p]
  \/ p \in ViewPortParams /\ (a.k = "viewport" \/ (IsArray(a) /\ a.shape = <<2, 2>>))
  \/ p \in VecParams /\ a.k \in ArrayKinds \cup SeqKinds /\ a.shape = <<2>>
MustRefuse(p, a) == ~MustAccept(p, a)

\* coupled arrays of one force/torque track: application point, force, torque
CoupledShapes == {<<0, 3>>, <<1, 3>>, <<2, 3>>, <<3, 3>>, <<2>>, <<3>>, <<2, 2>>, <<3, 2>>, <<2, 3, 1>>, <<1, 2, 3>>, <<>>}
CoupledAccept(s1, s2, s3) == s1 = s2 /\ s2 = s3 /\ Len(s1) = 2 /\ s1[2] = 3
CoupledRefuse(s1, s2, s3) == ~(s1 = s2 /\ s2 = s3)
\* (equal shapes that are not (n,3) are left open: the statement does not fix them)

\* two parameters of ONE constructor call at a time: the checks are independent, a wrong shape in
\* one place is not excused by a complementary wrong shape in another
PairShapes == {<<3>>, <<3, 3>>, <<>>, <<9>>, <<1, 3>>, <<3, 1>>, <<2>>, <<3, 3, 3>>, <<2, 2>>}
CtorOf(p) == CHOOSE c \in {"Data3D", "Force", "Calib", "Seelab"} : SubSeq(p, 1, Len(c)) = c
FixedNames == DOMAIN Fixed
Pairs == {pq \in FixedNames \X FixedNames : pq[1] # pq[2] /\ CtorOf(pq[1]) = CtorOf(pq[2])}
PairAccept(pq, s1, s2) == s1 = Fixed[pq[1]] /\ s2 = Fixed[pq[2]]

\* events: values x kind of event; a 0-dimensional array is a scalar, not an iterable
\* ("..z": the values are 1, 0, 0, ... - a check must count the values, not look at them)
IterKinds == {"list", "tuple", "ndarray_f4", "ndarray_f8", "listz", "ndarray_f4z", "ndarray_i4z"}
EventVals == {[k |-> k, n |-> n] : k \in IterKinds, n \in 0..3}
             \cup {[k |-> k, n |-> 0] : k \in {"none", "int", "float", "ndarray0_f4", "ndarray0_f8", "npscalar"}}
EventAccept(v, single) == v.k \in IterKinds /\ (single => v.n <= 1)
EventRefuse(v, single) == v.k \in {"none", "int", "float", "ndarray0_f4", "ndarray0_f8", "npscalar"} \/ (single /\ v.n > 1)

VARIABLES q
Init == q \in {[t |-> "param", p |-> p, a |-> a] : p \in Params, a \in Args}
              \cup {[t |-> "coupled", s |-> <<s1, s2, s3>>] : s1 \in CoupledShapes, s2 \in CoupledShapes, s3 \in CoupledShapes}
              \cup {[t |-> "event", v |-> v, single |-> sg] : v \in EventVals, sg \in BOOLEAN}
              \cup {[t |-> "pair", p |-> pq[1], p2 |-> pq[2], s |-> <<s1, s2>>] : pq \in Pairs, s1 \in PairShapes, s2 \in PairShapes}
Next == UNCHANGED q
Spec == Init /\ [][Next]_q

Verdict == IF q.t = "param" THEN (IF MustAccept(q.p, q.a) THEN "accept" ELSE "refuse")
           ELSE IF q.t = "coupled" THEN (IF CoupledAccept(q.s[1], q.s[2], q.s[3]) THEN "accept"
                                         ELSE IF CoupledRefuse(q.s[1], q.s[2], q.s[3]) THEN "refuse" ELSE "open")
           ELSE IF q.t = "pair" THEN (IF PairAccept(<<q.p, q.p2>>, q.s[1], q.s[2]) THEN "accept" ELSE "refuse")
           ELSE (IF EventAccept(q.v, q.single) THEN "accept" ELSE IF EventRefuse(q.v, q.single) THEN "refuse" ELSE "open")

\* the table is a partition: nothing must be both accepted and refused
Consistent == /\ q.t = "coupled" => ~(CoupledAccept(q.s[1], q.s[2], q.s[3]) /\ CoupledRefuse(q.s[1], q.s[2], q.s[3]))
              /\ q.t = "event" => ~(EventAccept(q.v, q.single) /\ EventRefuse(q.v, q.single))
\* exactly one array shape per fixed parameter is accepted
OneShape == q.t = "param" /\ q.p \in DOMAIN Fixed =>
              (MustAccept(q.p, q.a) <=> (IsArray(q.a) /\ q.a.shape = Fixed[q.p]))

Emit == PrintT("CTOR " \o ToJson([q |-> q, verdict |-> Verdict]))
=============================================================================
