SPECIFICATION Spec
CONSTANTS
  HDR = 2
  ENT = 1
  N = 2
  WT = {1, 2}
  SetTypes = {1, 2}
  OT = {}
  KS = {1}
  AddCs = {0}
  RepCs <- RepCsNone
  DescSel = {1, 3}
  Readers <- ReaderKinds
  ImplicitModes <- ImplicitRb
INVARIANT InvWellFormed
INVARIANT InvFrame
INVARIANT InvCompact
INVARIANT InvUnique
INVARIANT InvNoLeak
INVARIANT InvTableInv
INVARIANT InvTableAgree
INVARIANT InvSteps
CHECK_DEADLOCK FALSE
