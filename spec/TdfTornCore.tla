---------------------------- MODULE TdfTornCore ----------------------------
(***************************************************************************)
(* add / remove / replace as PROGRAMS of file effects, in the order in     *)
(* which the library issues them - the states in between are the files a   *)
(* crash (process killed, power lost) can leave behind.                    *)
(*                                                                         *)
(* Beyond the listed properties: they all speak about files between calls  *)
(* ("single process, no crashes").  This module says exactly what every    *)
(* crash point of a mutation looks like, so that one can ask TLC which     *)
(* guarantees survive a crash and which do not (TdfTorn).                  *)
(*                                                                         *)
(* Effects, at the grain the operating system sees them (the library       *)
(* writes through a buffered handle; a seek flushes what was written, so   *)
(* every run of contiguous writes reaches the file as one piece and the    *)
(* pieces arrive in program order):                                        *)
(*   [k |-> "ent", i, e]       table slot i := entry e                     *)
(*   [k |-> "dat", off, u, sz] the sz bytes of payload u written at off    *)
(*   [k |-> "mov", src, dst]   everything from src to the end of the file  *)
(*                             written again at dst (dst < src)            *)
(*   [k |-> "cut", at]         the file truncated (or extended) to at      *)
(* M is the object's copy of the table (equal to D.table for one object).  *)
(***************************************************************************)
EXTENDS TdfHandlesCore

Ent(i, e)        == [k |-> "ent", i |-> i, e |-> e, off |-> 0, u |-> 0, sz |-> 0, src |-> 0, dst |-> 0, at |-> 0]
Dat(off, u, sz)  == [k |-> "dat", i |-> 0, e |-> Unused(0), off |-> off, u |-> u, sz |-> sz, src |-> 0, dst |-> 0, at |-> 0]
Mov(src, dst)    == [k |-> "mov", i |-> 0, e |-> Unused(0), off |-> 0, u |-> 0, sz |-> 0, src |-> src, dst |-> dst, at |-> 0]
CutAt(at)        == [k |-> "cut", i |-> 0, e |-> Unused(0), off |-> 0, u |-> 0, sz |-> 0, src |-> 0, dst |-> 0, at |-> at]

\* ---- one effect applied to a file
Apply(D, x) ==
  LET te == TableEnd(D)
      L  == DLen(D.data) IN
  CASE x.k = "ent" -> [D EXCEPT !.table[x.i] = x.e]
    [] x.k = "dat" -> [D EXCEPT !.data = WriteAt(D.data, x.off - te, [u |-> x.u, lo |-> 0, hi |-> x.sz])]
    [] x.k = "mov" -> LET s == x.src - te  d == x.dst - te IN
                      IF s >= L THEN D
                      ELSE [D EXCEPT !.data = Norm(TakeB(D.data, d) \o DropB(D.data, s) \o DropB(D.data, d + (L - s)))]
    [] x.k = "cut" -> LET a == x.at - te IN
                      [D EXCEPT !.data = IF a >= L THEN Norm(D.data \o Hole(a - L)) ELSE Norm(TakeB(D.data, a))]

RECURSIVE Run(_, _)
Run(D, prog) == IF prog = <<>> THEN D ELSE Run(Apply(D, Head(prog)), Tail(prog))

\* a data write that stopped after j of its bytes (a block larger than the handle's buffer goes
\* to the file in several pieces)
Tear(D, x, j) == [D EXCEPT !.data = WriteAt(D.data, x.off - TableEnd(D), [u |-> x.u, lo |-> 0, hi |-> j])]

\* ---- the programs
\* add: the new entry, then every slot behind it (re-pointed behind the new block), then the bytes
AddProg(M, D, b) ==
  LET k   == MFirst(M, 0)
      off == M[k].offset
      n   == Len(M)
  IN <<Ent(k, NewEntry(b, off))>>
     \o [j \in 1..(n - k) |-> Ent(k + j, [M[k + j] EXCEPT !.offset = off + b.sz])]
     \o <<Dat(off, b.u, b.sz)>>

\* what-if (not what the library does): the bytes first, then the entry, then the slots behind it
AddProgBytesFirst(M, D, b) ==
  LET p == AddProg(M, D, b) IN <<p[Len(p)]>> \o SubSeq(p, 1, Len(p) - 1)

\* remove: the table first - every entry that moves (down in the file or up in the table), in
\* table order, then the fresh unused slot in the last position -, then the bytes behind the removed
\* block are written again at its offset, then the file is cut
RemProg(M, D, t) ==
  LET r   == HRemove(M, D, t)
      p   == MFirst(M, t)
      e   == M[p]
      n   == Len(M)
      Src(i) == IF i < p THEN M[i] ELSE M[i + 1]
      Rew(i) == Src(i).offset > e.offset \/ i >= p
      RECURSIVE Ents(_)
      Ents(i) == IF i >= n THEN <<>> ELSE (IF Rew(i) THEN <<Ent(i, r.m[i])>> ELSE <<>>) \o Ents(i + 1)
      L   == FileLen(D)
      src == e.offset + e.size
  IN Ents(1) \o <<Ent(n, r.m[n])>>
     \o (IF src >= L THEN <<>> ELSE <<Mov(src, e.offset)>>)
     \o <<CutAt(IF src >= L THEN e.offset ELSE e.offset + (L - src))>>

\* replace: the whole removal, then the whole add (through the copy as the removal left it)
RepProg(M, D, b) ==
  LET old == M[MFirst(M, b.t)]
      bb  == IF b.c = NoComment THEN [b EXCEPT !.c = old.comment] ELSE b
      r1  == HRemove(M, D, b.t)
  IN RemProg(M, D, b.t) \o AddProg(r1.m, r1.d, bb)
=============================================================================
