SPECIFICATION Spec
CONSTANTS
  HDR = 64
  ENT = 288
CONSTRAINT Report
CHECK_DEADLOCK FALSE
