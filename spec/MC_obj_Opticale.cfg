SPECIFICATION Spec
CONSTANTS
  Kind = "Optical"
  NI = 2
  MaxItems = 2
  MaxChan = 3
  Labels = {1, 2}
  Chans = {0, 2, 5}
  Edits = TRUE
  AutoRule = "max"
INVARIANT InvConforms
INVARIANT InvAligned
INVARIANT InvDisjoint
CHECK_DEADLOCK FALSE
