SPECIFICATION Spec
CONSTANTS
  Kinds <- AllKinds
  MaxF = 3
  MaxItems = 2
  WithMutants = FALSE
INVARIANT RoundTrip
INVARIANT SizeAgree
INVARIANT RleFieldsOK
INVARIANT ShapeSizeAgree
INVARIANT RunsSetAgree
INVARIANT Canon
INVARIANT ScrambleInv
INVARIANT MutantsDiffer
CONSTRAINT Emit
CHECK_DEADLOCK FALSE
