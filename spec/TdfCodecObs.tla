---------------------------- MODULE TdfCodecObs ----------------------------
(***************************************************************************)
(* Judgement of observations from REAL-SIZED blocks (M2 of DESIGN 4.3):    *)
(* the harness logs, for each block it encoded / decoded (large random     *)
(* blocks, the eight blocks of the BTS capture), the SHAPE of the block    *)
(* and the numbers the code produced; TLC recomputes the size from the     *)
(* shape with the layout table and the run tables from the masks, and      *)
(* accepts or rejects each observation.                                    *)
(*   o.kind, o.fmt, o.shape                                                *)
(*   o.nbytes (declared by the block), o.written, o.consumed,              *)
(*   o.declared (size in the jump table, -1 if none)                       *)
(*   o.masks  : presence mask of every run-length coded item, in order     *)
(*   o.runs   : run table parsed from the written bytes, same order        *)
(***************************************************************************)
EXTENDS TdfCodec, Json, IOUtils

Obs == JsonDeserialize(IOEnv.OBS_FILE)
VARIABLE k
Init == k \in 1..Len(Obs)
Next == UNCHANGED k
Spec == Init /\ [][Next]_k

O == Obs[k]
Expected == ShapeSize(O.kind, O.shape, O.fmt)
SizeOK == /\ Expected = O.nbytes /\ Expected = O.written /\ Expected = O.consumed
          /\ (O.declared >= 0 => Expected = O.declared)
RunsOK == /\ Len(O.masks) = Len(O.runs)
          /\ \A t \in 1..Len(O.masks) :
               LET rs == O.runs[t]  m == O.masks[t] IN
               /\ {<<rs[r][1], rs[r][2]>> : r \in 1..Len(rs)} = RunsSet(m)
               /\ Len(rs) = Cardinality(RunStarts(m))                      \* no run listed twice
               /\ \A r \in 1..(Len(rs) - 1) : rs[r][1] + rs[r][2] < rs[r + 1][1]   \* increasing, not touching
Judge == PrintT("OBS " \o ToJson([k |-> k, size_ok |-> SizeOK, runs_ok |-> RunsOK, expected |-> Expected]))
=============================================================================
