---------------------------- MODULE TdfSession ----------------------------
(***************************************************************************)
(* The public API of basictdf.Tdf on ONE file through ONE Tdf object, as   *)
(* functions from a state and a call to the set of allowed outcomes.       *)
(*                                                                         *)
(*   state  s == [f, m, g]                                                 *)
(*     f : the file on disk (TdfFile)                                      *)
(*     m : the Tdf object: [mode, inside, hw, fds]                         *)
(*           mode   "rb" | "r+b"   what the next open() will use           *)
(*           inside TRUE between __enter__ and __exit__                    *)
(*           hw     the open handle is writable                            *)
(*           fds    OS-level handles this object holds on the file         *)
(*     g : ghost  [stored, compact, v0, n0]                                *)
(*           stored : type -> what was last stored under that type         *)
(*                    ([u, sz, fmt, c, cd, md] or None); initialised from  *)
(*                    the initial file, so untouched and opaque blocks are *)
(*                    covered; updated ONLY by a successful add / replace /*)
(*                    setter / remove of that type                         *)
(*           compact: the file was compact initially (C09 is conditional)  *)
(*           v0, n0 : version and slot count of the initial file           *)
(*                                                                         *)
(* A call is a record o with o.op and its arguments.  Outcome(s, o) is the *)
(* (single) expected file and ghost plus the set of allowed object states  *)
(* and the set of rejection causes; a call succeeds iff that set is empty. *)
(* The same operators are used by the MC models (design-level checking and *)
(* behaviour generation) and by the trace specification (conformance).     *)
(***************************************************************************)
EXTENDS TdfFile

CONSTANTS ImplicitModes(_)   \* modes an implicit (reader-provided) context may
                             \* leave behind: {"rb"} is what the code does,
                             \* {m, "rb"} is what the properties allow

None == [u |-> 0]
DefaultComment == 0

Mutators == {"add", "remove", "replace", "set"}

\* ------------------------------------------------------------------ object
Closed(mode) == [mode |-> mode, inside |-> FALSE, hw |-> FALSE, fds |-> 0]
CanWrite(m)  == m.inside /\ m.hw /\ m.mode = "r+b"

\* what an implicit context (entered and left inside one call) leaves behind
AfterImplicit(m) == IF m.inside THEN {m} ELSE {Closed(md) : md \in ImplicitModes(m.mode)}

\* ------------------------------------------------------------------ causes
CtxCauses(m) == IF ~m.inside THEN {"nocontext"}
                ELSE IF ~CanWrite(m) THEN {"readonly"} ELSE {}

BlockCauses(o) == (IF o.bad # "none" THEN {"badblock"} ELSE {})
                  \cup (IF ~o.cok THEN {"badcomment"} ELSE {})

AddCauses(s, o) ==
  CtxCauses(s.m)
  \cup (IF HasType(s.f, o.b.t) THEN {"duplicate"} ELSE {})
  \cup (IF ~HasFree(s.f) THEN {"full"} ELSE {})
  \cup (IF HasFree(s.f) /\ HoleAt(s.f, FirstFree(s.f)) THEN {"hole"} ELSE {})
  \cup BlockCauses(o)

RemoveCauses(s, o) ==
  CtxCauses(s.m) \cup (IF ~HasType(s.f, o.t) THEN {"missing"} ELSE {})

ReplaceCauses(s, o) ==
  CtxCauses(s.m)
  \cup (IF ~HasType(s.f, o.b.t) THEN {"missing"} ELSE {})
  \cup (IF HasType(s.f, o.b.t) /\ ReplaceHole(s.f, o.b.t) THEN {"hole"} ELSE {})
  \cup BlockCauses(o)

\* a convenience setter replaces when the type is present and adds otherwise
SetIsReplace(s, o) == HasType(s.f, o.b.t)
SetCauses(s, o) == IF SetIsReplace(s, o) THEN ReplaceCauses(s, o) ELSE AddCauses(s, o)

Causes(s, o) ==
  CASE o.op = "add"     -> AddCauses(s, o)
    [] o.op = "remove"  -> RemoveCauses(s, o)
    [] o.op = "replace" -> ReplaceCauses(s, o)
    [] o.op = "set"     -> SetCauses(s, o)
    [] OTHER            -> {}

\* fixed priority, used only to give every refusal one label
CauseOrder == <<"nocontext", "readonly", "missing", "duplicate", "full", "hole",
                "badblock", "badcomment">>
Primary(cs) == CauseOrder[CHOOSE i \in 1..Len(CauseOrder) :
                 CauseOrder[i] \in cs /\ \A j \in 1..(i-1) : CauseOrder[j] \notin cs]

\* ------------------------------------------------------------------ ghost
StoredOf(b) == [u |-> b.u, sz |-> b.sz, fmt |-> b.fmt, c |-> b.c, cd |-> b.cd, md |-> b.md]

GhostInit(f, types) ==
  [stored |-> [t \in types |->
                 IF HasType(f, t)
                 THEN LET e == f.table[FirstOf(f, t)]
                          sl == Slice(f.data, e.offset - TableEnd(f), e.size) IN
                      [u |-> IF Len(sl) = 1 /\ sl[1].lo = 0 /\ sl[1].hi = e.size THEN sl[1].u ELSE -1,
                       sz |-> e.size, fmt |-> e.format, c |-> e.comment,
                       cd |-> e.cdate, md |-> e.mdate]
                 ELSE None],
   compact |-> Compact(f), v0 |-> f.version, n0 |-> f.n]

\* the block as it ends up stored (comment carry-over for replace / setter)
Effective(s, o) ==
  LET b == o.b IN
  IF o.op = "add" THEN b
  ELSE IF o.op = "replace"
       THEN (IF b.c = NoComment THEN [b EXCEPT !.c = s.f.table[FirstOf(s.f, b.t)].comment] ELSE b)
  ELSE \* set
       IF SetIsReplace(s, o) THEN [b EXCEPT !.c = s.f.table[FirstOf(s.f, b.t)].comment]
       ELSE [b EXCEPT !.c = DefaultComment]

\* ------------------------------------------------------------------ outcome
Refused(s, cs) == [f |-> s.f, g |-> s.g, ms |-> AfterImplicit(s.m), causes |-> cs]

Outcome(s, o) ==
  IF o.op \in Mutators THEN
     LET cs == Causes(s, o) IN
     IF cs # {} THEN Refused(s, cs)
     ELSE IF o.op = "remove"
          THEN [f |-> RemoveFile(s.f, o.t),
                g |-> [s.g EXCEPT !.stored[o.t] = None],
                ms |-> {s.m}, causes |-> {}]
     ELSE LET b == Effective(s, o) IN
          [f |-> IF o.op = "add" \/ (o.op = "set" /\ ~SetIsReplace(s, o))
                 THEN AddFile(s.f, b) ELSE ReplaceFile(s.f, b),
           g |-> [s.g EXCEPT !.stored[b.t] = StoredOf(b)],
           ms |-> {s.m}, causes |-> {}]
  ELSE IF o.op = "allow_write" THEN
     [f |-> s.f, g |-> s.g, ms |-> {[s.m EXCEPT !.mode = "r+b"]}, causes |-> {}]
  ELSE IF o.op = "enter" THEN
     \* also on an object that is already inside a context (nested `with` on one object): the
     \* handle is re-opened with the current mode, the previous handle is dropped
     [f |-> s.f, g |-> s.g,
      ms |-> {[mode |-> s.m.mode, inside |-> TRUE, hw |-> (s.m.mode = "r+b"), fds |-> 1]},
      causes |-> {}]
  ELSE IF o.op \in {"exit", "exit_exc"} THEN
     [f |-> s.f, g |-> s.g, ms |-> {Closed("rb")}, causes |-> {}]
  ELSE \* every reader: the file is untouched, an implicit context may be used
     [f |-> s.f, g |-> s.g, ms |-> AfterImplicit(s.m), causes |-> {}]

-----------------------------------------------------------------------------
(* Properties of a state.                                                  *)

\* C04: every live entry is exactly what was last stored under its type,
\* every stored type is present, nothing else is
FrameOK(s, types) ==
  /\ \A i \in LiveSlots(s.f) :
       LET e == s.f.table[i] IN
       /\ e.type \in types
       /\ s.g.stored[e.type] # None
       /\ LET st == s.g.stored[e.type] IN
          /\ e.size = st.sz /\ e.format = st.fmt /\ e.comment = st.c
          /\ e.cdate = st.cd /\ e.mdate = st.md
          /\ Slice(s.f.data, e.offset - TableEnd(s.f), e.size) = Whole(st.u, st.sz)
  /\ \A t \in types : s.g.stored[t] # None => HasType(s.f, t)

WellFormedS(s) == WellFormed(s.f, s.g.v0, s.g.n0)
CompactS(s)    == s.g.compact => Compact(s.f)
UniqueS(s)     == UniqueTypes(s.f)
NoLeakS(s)     == (~s.m.inside => s.m.fds = 0) /\ (s.m.inside => s.m.fds = 1)

(* Properties of a step s -> t under call o with outcome causes cs.        *)
\* C07 / C08: a refused call changes nothing on disk
RefusedNoEffect(s, t, cs) == cs # {} => t.f = s.f
\* C08: bytes change only by a mutator in a write context
WriteOnlyInWriteCtx(s, t, o) == t.f # s.f => (o.op \in Mutators /\ CanWrite(s.m))
\* C09: add grows by exactly the block, remove shrinks by exactly the block
GrowShrink(s, t, o, cs) ==
  (cs = {} /\ s.g.compact) =>
    /\ o.op = "add" => FileLen(t.f) = FileLen(s.f) + o.b.sz
    /\ o.op = "remove" => FileLen(t.f) = FileLen(s.f) - s.f.table[FirstOf(s.f, o.t)].size
=============================================================================
