----------------------------- MODULE TdfObjects -----------------------------
(***************************************************************************)
(* Bounded model of the block objects of one kind: two instances, items    *)
(* with labels from a small set (so duplicates occur), explicit and        *)
(* automatic channels.  The successor of every call is what the library is *)
(* meant to do; InvConforms checks that this successor violates no clause  *)
(* of TdfObjectsCore!Step, in every reachable state and for every call.    *)
(* The labelled state graph yields the tours executed on real objects      *)
(* (lib/verif/objects.py).                                                 *)
(***************************************************************************)
EXTENDS TdfObjectsCore

CONSTANTS Kind, NI, MaxItems, MaxChan, Labels, Chans, AutoRule,
          Edits     \* offer in-place edits of item content (C20 models; doubles the states per item)
\* AutoRule: "max" (largest channel + 1) or "len" (number of items)

VARIABLES w, started
vars == <<w, started>>
\* item identities are canonical in every state (instance 1 holds ids 1..n1, instance 2
\* the next ones, ...): states that differ only in the names of item objects are the
\* same state; items created by a call get temporary ids above 100
nid == 101

HasChans == Kind \in ChanKinds
Item(id, l) == [id |-> id, label |-> l, val |-> 0]

AutoChan(inst) ==
  IF AutoRule = "len" THEN Len(inst.items)
  ELSE IF inst.chans = <<>> THEN 0
  ELSE (CHOOSE m \in Range(inst.chans) : \A c \in Range(inst.chans) : c <= m) + 1

OkRes(v)  == [ok |-> TRUE, exc |-> <<>>, val |-> v]      \* v: always a sequence of integers
ErrRes(e) == [ok |-> FALSE, exc |-> <<e, "Exception">>, val |-> <<>>]

\* ---------------------------------------------------------------- single add
\* [inst, res]
AddTo(inst, x, good, c) ==
  IF ~good THEN [inst |-> inst, res |-> ErrRes(IF Kind \in LengthKinds THEN "ValueError" ELSE "TypeError")]
  ELSE IF ~HasChans THEN [inst |-> [inst EXCEPT !.items = Append(@, x)], res |-> OkRes(<<>>)]
  ELSE LET ch == IF c = Auto THEN AutoChan(inst) ELSE c IN
       IF ch \in Range(inst.chans) THEN [inst |-> inst, res |-> ErrRes("ValueError")]
       ELSE [inst |-> [inst EXCEPT !.items = Append(@, x), !.chans = Append(@, ch)], res |-> OkRes(<<>>)]

RECURSIVE AddSeq(_, _, _, _)
\* sequential adds that stop at the first failure; xs: items with .good, cs: channels or <<>> for automatic
AddSeq(inst, xs, cs, k) ==
  IF k > Len(xs) \/ (cs # <<>> /\ k > Len(cs)) THEN [inst |-> inst, res |-> OkRes(<<>>)]
  ELSE LET one == AddTo(inst, Item(xs[k].id, xs[k].label), xs[k].good, IF cs = <<>> THEN Auto ELSE cs[k]) IN
       IF ~one.res.ok THEN one ELSE AddSeq(one.inst, xs, cs, k + 1)

\* ---------------------------------------------------------------- calls
Fresh(n) == [k \in 1..n |-> nid + k - 1]   \* ids of n new item objects

CallConstruct(i, ls) ==
  LET xs == [k \in 1..Len(ls) |-> [id |-> nid + k - 1, label |-> ls[k], good |-> TRUE, val |-> 0]]
      r  == AddSeq([ex |-> TRUE, items |-> <<>>, chans |-> <<>>, aux |-> 0, szok |-> TRUE, lenok |-> TRUE], xs, <<>>, 1)
  IN [o |-> [op |-> "construct", i |-> i, xs |-> xs, share_ok |-> FALSE], w2 |-> [w EXCEPT ![i] = r.inst], res |-> OkRes(<<>>), used |-> Len(ls)]

CallDecode(i, j) ==
  LET a == w[i]
      d == [ex |-> TRUE, items |-> [k \in 1..Len(a.items) |-> [Item(nid + k - 1, a.items[k].label) EXCEPT !.val = a.items[k].val]],
            chans |-> a.chans,
            aux |-> a.aux, szok |-> TRUE, lenok |-> TRUE]
  IN [o |-> [op |-> "decode", i |-> i, j |-> j, share_ok |-> FALSE], w2 |-> [w EXCEPT ![j] = d], res |-> OkRes(<<>>), used |-> Len(a.items)]

CallAdd(i, l, good, c) ==
  LET r == AddTo(w[i], Item(nid, l), good, c)
  IN [o |-> [op |-> "add", i |-> i, x |-> Item(nid, l), good |-> good, c |-> c, share_ok |-> FALSE],
      w2 |-> [w EXCEPT ![i] = r.inst], res |-> r.res, used |-> 1]

CallRemove(i, by, key) ==
  LET a == w[i]  n == Len(a.items)
      cands == IF by = "label" THEN {k \in 1..n : a.items[k].label = key}
               ELSE IF by = "index" THEN (IF key >= 0 /\ key < n THEN {key + 1} ELSE {})
               ELSE {k \in 1..n : a.items[k].id = key}
      o == [op |-> "remove", i |-> i, by |-> by, key |-> key, share_ok |-> FALSE,
            pos |-> IF cands = {} THEN 0 ELSE CHOOSE k \in cands : \A j \in cands : k <= j]
  IN IF cands = {} THEN [o |-> o, w2 |-> w, res |-> ErrRes(IF by = "label" THEN "KeyError" ELSE "ValueError"), used |-> 0]
     ELSE LET k == CHOOSE k \in cands : \A j \in cands : k <= j IN
          [o |-> o, res |-> OkRes(<<>>), used |-> 0,
           w2 |-> [w EXCEPT ![i] = [a EXCEPT !.items = RemoveAt(@, k),
                                              !.chans = IF HasChans THEN RemoveAt(@, k) ELSE @]]]

\* pat: sequence of <<label, good>>; cs: channels for FPCal pairs
CallAssign(i, pat, cs) ==
  LET xs == [k \in 1..Len(pat) |-> [id |-> nid + k - 1, label |-> pat[k][1], good |-> pat[k][2], val |-> 0]]
      o  == [op |-> "assign", i |-> i, xs |-> xs, cs |-> cs, share_ok |-> FALSE]
      a  == w[i]
  IN IF Kind \in {"Data3D", "Force"} THEN
          IF \A k \in 1..Len(xs) : xs[k].good
          THEN [o |-> o, w2 |-> [w EXCEPT ![i] = [a EXCEPT !.items = Strip(xs)]], res |-> OkRes(<<>>), used |-> Len(pat)]
          ELSE [o |-> o, w2 |-> w, res |-> ErrRes("ValueError"), used |-> Len(pat)]
     ELSE LET start == IF Kind = "FPCal" THEN [a EXCEPT !.items = <<>>, !.chans = <<>>] ELSE a
              r == AddSeq(start, xs, cs, 1)
          IN [o |-> o, w2 |-> [w EXCEPT ![i] = r.inst], res |-> r.res, used |-> Len(pat)]

CallBulkAdd(i, ls, cs) ==
  LET xs == [k \in 1..Len(ls) |-> [id |-> nid + k - 1, label |-> ls[k], good |-> TRUE, val |-> 0]]
      r  == AddSeq(w[i], xs, cs, 1)
  IN [o |-> [op |-> "bulk_add", i |-> i, xs |-> xs, cs |-> cs, share_ok |-> FALSE], w2 |-> [w EXCEPT ![i] = r.inst], res |-> r.res,
      used |-> Len(ls)]

CallBulkRemove(i, ks) ==
  LET a == w[i]
      n == CHOOSE n \in 0..Len(ks) : ValidPrefix(a, ks, n) /\ (n = Len(ks) \/ ~ValidPrefix(a, ks, n + 1))
  IN [o |-> [op |-> "bulk_remove", i |-> i, ks |-> ks, share_ok |-> FALSE], w2 |-> [w EXCEPT ![i] = RemSeq(a, ks, n)],
      res |-> IF n = Len(ks) THEN OkRes(<<>>) ELSE ErrRes("ValueError"), used |-> 0]

LookupVal(a, what, key) ==
  LET n == Len(a.items) IN
  CASE what = "len"  -> OkRes(<<n>>)
    [] what = "iter" -> OkRes([k \in 1..n |-> a.items[k].id])
    [] what = "index" -> IF key >= 0 /\ key < n THEN OkRes(<<a.items[key + 1].id>>)
                         ELSE IF key < 0 /\ key >= 0 - n THEN OkRes(<<a.items[n + key + 1].id>>)
                         ELSE ErrRes("IndexError")
    [] what = "label" -> IF \E k \in 1..n : a.items[k].label = key
                         THEN OkRes(<<a.items[CHOOSE k \in 1..n : a.items[k].label = key /\ \A j \in 1..(k - 1) : a.items[j].label # key].id>>)
                         ELSE ErrRes("KeyError")
    [] what = "contains" -> OkRes(<<IF \E k \in 1..n : a.items[k].label = key THEN 1 ELSE 0>>)
    [] what = "badkey" -> ErrRes("TypeError")
CallLookup(i, what, key) ==
  [o |-> [op |-> "lookup", i |-> i, what |-> what, key |-> key, share_ok |-> FALSE], w2 |-> w, res |-> LookupVal(w[i], what, key), used |-> 0]
CallAux(i) ==
  [o |-> [op |-> "aux", i |-> i, share_ok |-> FALSE], w2 |-> [w EXCEPT ![i].aux = @ + 1], res |-> OkRes(<<>>), used |-> 0]
CallEdit(i, pos) ==
  [o |-> [op |-> "edit", i |-> i, pos |-> pos, share_ok |-> FALSE], res |-> OkRes(<<>>), used |-> 0,
   w2 |-> [w EXCEPT ![i].items[pos].val = 1 - @]]
\* i takes over the items of j (in the model: copies with fresh identities)
CallAssignFrom(i, j) ==
  [o |-> [op |-> "assign_from", i |-> i, j |-> j, share_ok |-> TRUE, compat |-> TRUE], res |-> OkRes(<<>>), used |-> Len(w[j].items),
   w2 |-> [w EXCEPT ![i].items = [k \in 1..Len(w[j].items) |-> [w[j].items[k] EXCEPT !.id = nid + k - 1]]]]
\* the block's own track list (or something that reads lazily from it) assigned to the block itself
CallAssignSelf(i) == [o |-> [op |-> "assign_self", i |-> i, share_ok |-> FALSE], w2 |-> w, res |-> OkRes(<<>>), used |-> 0]
CallPoke(i) == [o |-> [op |-> "poke", i |-> i, share_ok |-> FALSE], w2 |-> w, res |-> OkRes(<<>>), used |-> 0]
CallEncode(i) ==
  LET a == w[i] IN
  [o |-> [op |-> "encode", i |-> i, share_ok |-> FALSE], w2 |-> w, used |-> 0,
   res |-> OkRes(IF HasChans THEN Pairs(a) ELSE <<>>)]

\* ---------------------------------------------------------------- which calls a kind offers
LabelSeqs(n) == UNION {[1..k -> Labels] : k \in 0..n}
Pats == UNION {[1..k -> {<<l, g>> : l \in Labels, g \in BOOLEAN}] : k \in 0..2}
RemKs    == {<<0>>, <<0, 0>>, <<1, 0>>, <<0, 1>>, <<2, 0>>, <<0, 3>>}      \* index lists for bulk removal
CtorTakesItems == Kind \in {"FPCal", "Optical"}
\* "Unused": the placeholder block of an unused table slot - no items at all; its only state are the
\* block-level dates (modelled as the auxiliary counter, like the marker links of a 3D block)
HasItems       == Kind # "Unused"
HasAux         == Kind \in {"Data3D", "Unused"}
HasRemoveLabel == Kind = "EMG"
HasRemoveIdx   == Kind = "FPCal"
HasRemoveItem  == Kind \in {"FPCal", "Optical", "Events"}      \* by item object (remove_platform / list.remove)
HasAssign      == Kind \in {"Data3D", "Force", "FPCal", "FPData"}
HasBulk        == Kind = "FPCal"
HasLookup      == Kind \in IndexKinds
BadItems       == Kind \in LengthKinds
HasContent     == Edits /\ Kind \in {"EMG", "Data3D", "Force", "FPData", "Events", "FPCal", "Optical"}   \* items whose content can be edited in place

\* channel lists of whole-list assignment / bulk add (all inside MaxChan: a value beyond the bound
\* would be pruned by the state constraint and never toured - bin/audit-graphs)
AssignCs == {<<>>, <<0, 2>>, <<2, 2>>, <<1, 0>>}
BulkCs   == {<<>>, <<0, 2>>, <<2, 2>>, <<1, 0>>}

Calls ==
  {CallConstruct(i, ls) : i \in 1..NI, ls \in (IF CtorTakesItems THEN LabelSeqs(2) ELSE {<<>>})}
  \cup UNION {{CallDecode(i, j) : j \in 1..NI \ {i}} : i \in {k \in 1..NI : w[k].ex}}
  \cup {CallAdd(i, l, g, c) : i \in {k \in 1..NI : w[k].ex /\ HasItems}, l \in Labels,
                              g \in (IF BadItems THEN BOOLEAN ELSE {TRUE}),
                              c \in (IF HasChans THEN Chans \cup {Auto} ELSE {Auto})}
  \cup (IF HasRemoveLabel THEN {CallRemove(i, "label", l) : i \in {k \in 1..NI : w[k].ex}, l \in Labels} ELSE {})
  \cup (IF HasRemoveIdx THEN {CallRemove(i, "index", k) : i \in {k \in 1..NI : w[k].ex}, k \in 0..MaxItems} ELSE {})
  \cup (IF HasRemoveItem THEN UNION {{CallRemove(i, "item", id) : id \in Ids(w[i])} : i \in {k \in 1..NI : w[k].ex}} ELSE {})
  \cup (IF HasAssign THEN {CallAssign(i, p, cs) : i \in {k \in 1..NI : w[k].ex}, p \in Pats,
                                                  cs \in (IF Kind = "FPCal" THEN AssignCs \ {<<>>} ELSE {<<>>})} ELSE {})
  \cup (IF HasBulk THEN {CallBulkAdd(i, ls, cs) : i \in {k \in 1..NI : w[k].ex}, ls \in LabelSeqs(2) \ {<<>>},
                                                  cs \in {<<>>, <<0, 2>>, <<5, 5>>}} ELSE {})
  \cup (IF HasBulk THEN {CallBulkRemove(i, ks) : i \in {k \in 1..NI : w[k].ex}, ks \in RemKs} ELSE {})
  \cup (IF HasLookup THEN {CallLookup(i, wh, 0) : i \in {k \in 1..NI : w[k].ex}, wh \in {"len", "iter", "badkey"}}
                          \cup {CallLookup(i, "index", k) : i \in {k \in 1..NI : w[k].ex}, k \in (0 - MaxItems - 1)..(MaxItems + 1)}
                          \cup {CallLookup(i, wh, l) : i \in {k \in 1..NI : w[k].ex}, wh \in {"label", "contains"}, l \in Labels \cup {9}} ELSE {})
  \cup {CallEncode(i) : i \in {k \in 1..NI : w[k].ex}}
  \cup (IF HasAux THEN {CallAux(i) : i \in {k \in 1..NI : w[k].ex}} ELSE {})
  \cup UNION {{CallEdit(i, pos) : pos \in 1..Len(w[i].items)} : i \in {k \in 1..NI : w[k].ex /\ HasContent}}
  \cup {CallPoke(i) : i \in {k \in 1..NI : w[k].ex}}
  \cup (IF Kind \in {"Data3D", "Force"} THEN {c \in {CallAssignFrom(i, j) : i \in 1..NI, j \in 1..NI} : c.o.i # c.o.j /\ w[c.o.i].ex /\ w[c.o.j].ex} ELSE {})
  \cup (IF Kind \in {"Data3D", "Force", "FPCal"} THEN {CallAssignSelf(i) : i \in {k \in 1..NI : w[k].ex}} ELSE {})

Fits(c) == \A i \in 1..NI : /\ Len(c.w2[i].items) <= MaxItems /\ c.w2[i].aux <= 2
                             /\ \A ch \in Range(c.w2[i].chans) : ch <= MaxChan

RECURSIVE Before(_, _)
Before(ww, i) == IF i = 1 THEN 0 ELSE Before(ww, i - 1) + Len(ww[i - 1].items)
Canon(ww) == [i \in 1..NI |-> [ww[i] EXCEPT !.items = [k \in 1..Len(ww[i].items) |->
                                   [id |-> Before(ww, i) + k, label |-> ww[i].items[k].label, val |-> ww[i].items[k].val]]]]
Init == w = [i \in 1..NI |-> NoInst] /\ started = FALSE
Begin == ~started /\ started' = TRUE /\ UNCHANGED w
Act(c) == started /\ UNCHANGED started /\ Fits(c) /\ w' = Canon(c.w2)
Ex(i)  == w[i].ex

\* one named action per call, over constant parameter sets, so that TLC labels
\* every edge of the state graph with the instantiated call
Construct(i, ls)      == (ls = <<>> \/ CtorTakesItems) /\ Act(CallConstruct(i, ls))
Decode(i, j)          == Ex(i) /\ i # j /\ Act(CallDecode(i, j))
Add(i, l, g, c)       == Ex(i) /\ HasItems /\ (g \/ BadItems) /\ (c = Auto \/ HasChans) /\ Act(CallAdd(i, l, g, c))
RemoveLabel(i, l)     == Ex(i) /\ HasRemoveLabel /\ Act(CallRemove(i, "label", l))
RemoveIndex(i, k)     == Ex(i) /\ HasRemoveIdx /\ Act(CallRemove(i, "index", k))
RemoveItem(i, pos)    == Ex(i) /\ HasRemoveItem /\ pos <= Len(w[i].items) /\ Act(CallRemove(i, "item", w[i].items[pos].id))
Assign(i, p, cs)      == Ex(i) /\ HasAssign /\ ((Kind = "FPCal") <=> (cs # <<>>)) /\ Act(CallAssign(i, p, cs))
BulkAdd(i, ls, cs)    == Ex(i) /\ HasBulk /\ Act(CallBulkAdd(i, ls, cs))
Lookup(i, what, key)  == Ex(i) /\ HasLookup /\ Act(CallLookup(i, what, key))
Encode(i)             == Ex(i) /\ Act(CallEncode(i))
AuxEdit(i)            == Ex(i) /\ HasAux /\ Act(CallAux(i))
EditItem(i, pos)      == Ex(i) /\ HasContent /\ pos <= Len(w[i].items) /\ Act(CallEdit(i, pos))
Poke(i)               == Ex(i) /\ Act(CallPoke(i))
AssignSelf(i)         == Ex(i) /\ Kind \in {"Data3D", "Force", "FPCal"} /\ Act(CallAssignSelf(i))
AssignFrom(i, j)      == Ex(i) /\ Ex(j) /\ i # j /\ Kind \in {"Data3D", "Force"} /\ Act(CallAssignFrom(i, j))

BulkRemove(i, ks)     == Ex(i) /\ HasBulk /\ Act(CallBulkRemove(i, ks))
Next ==
  \/ Begin
  \/ \E i \in 1..NI :
        \/ \E ls \in LabelSeqs(2) : Construct(i, ls)
        \/ \E j \in 1..NI : Decode(i, j) \/ AssignFrom(i, j)
        \/ AssignSelf(i)
        \/ \E l \in Labels, g \in BOOLEAN, c \in Chans \cup {Auto} : Add(i, l, g, c)
        \/ \E l \in Labels : RemoveLabel(i, l)
        \/ \E k \in 0..MaxItems : RemoveIndex(i, k)
        \/ \E pos \in 1..MaxItems : RemoveItem(i, pos)
        \/ \E p \in Pats, cs \in AssignCs : Assign(i, p, cs)
        \/ \E ls \in LabelSeqs(2) \ {<<>>}, cs \in BulkCs : BulkAdd(i, ls, cs)
        \/ \E ks \in RemKs : BulkRemove(i, ks)
        \/ \E wh \in {"len", "iter", "badkey"} : Lookup(i, wh, 0)
        \/ \E k \in (0 - MaxItems - 1)..(MaxItems + 1) : Lookup(i, "index", k)
        \/ \E wh \in {"label", "contains"}, l \in Labels \cup {9} : Lookup(i, wh, l)
        \/ Encode(i) \/ AuxEdit(i) \/ Poke(i)
        \/ \E pos \in 1..MaxItems : EditItem(i, pos)
Spec == Init /\ [][Next]_vars

\* the model's own successors satisfy the contract, for every call in every state
InvConforms == \A c \in Calls : Step(Kind, w, c.o, c.w2, c.res) = {}
InvDebug == \A c \in Calls : Step(Kind, w, c.o, c.w2, c.res) = {} \/ PrintT(<<"BAD", c.o, c.res, Step(Kind, w, c.o, c.w2, c.res)>>)
InvAligned  == \A i \in 1..NI : w[i].ex => Aligned(Kind, w[i]) /\ (HasChans => Unique(w[i]))
\* no item object is in two instances
InvDisjoint == \A i, j \in 1..NI : i # j => Ids(w[i]) \cap Ids(w[j]) = {}
=============================================================================
