------------------------------ MODULE TdfFile ------------------------------
(***************************************************************************)
(* A TDF container as a value, and what add / remove / replace do to it.  *)
(*                                                                         *)
(*   file  == [n, sigok, version, table, data]                             *)
(*   table == sequence of n entries                                        *)
(*            [type, format, offset, size, comment, cdate, mdate]          *)
(*            (type 0 = unused slot; the access date is not modelled: the  *)
(*            library stamps it with now() and no property mentions it)    *)
(*   data  == the bytes after the table, as extents (TdfExtents)           *)
(*                                                                         *)
(* HDR and ENT are the header and entry sizes: 64 and 288 in the real      *)
(* format (trace validation), 2 and 1 in the toy geometry of the MC        *)
(* models; TableEnd(f) is the code's  64 + 288 * nEntries.                 *)
(*                                                                         *)
(* comment, cdate, mdate and payloads are opaque identifiers.              *)
(***************************************************************************)
EXTENDS TdfExtents, FiniteSets

CONSTANTS HDR, ENT

TableEnd(f) == HDR + ENT * f.n

Slots(f)      == 1..f.n
IsLive(e)     == e.type # 0
LiveSlots(f)  == {i \in Slots(f) : IsLive(f.table[i])}
FreeSlots(f)  == {i \in Slots(f) : ~IsLive(f.table[i])}
HasType(f, t) == \E i \in Slots(f) : f.table[i].type = t
\* the library always takes the FIRST matching entry
FirstOf(f, t) == CHOOSE i \in Slots(f) :
                    f.table[i].type = t /\ \A j \in 1..(i-1) : f.table[j].type # t
EndOf(e)      == e.offset + e.size
FileLen(f)    == TableEnd(f) + DLen(f.data)
LiveTypes(f)  == {f.table[i].type : i \in LiveSlots(f)}

\* canonical unused slot (format 0, size 0; text and dates are whatever the
\* writer put there - compared nowhere)
Unused(off) == [type |-> 0, format |-> 0, offset |-> off, size |-> 0,
                comment |-> 0, cdate |-> 0, mdate |-> 0]

-----------------------------------------------------------------------------
(* State predicates: each is one property clause.                          *)

\* C03
SigVerOK(f, v0, n0) == f.sigok /\ f.version = v0 /\ f.n = n0 /\ Len(f.table) = f.n
RangesOK(f)  == \A i \in LiveSlots(f) :
                   /\ f.table[i].size >= 0
                   /\ TableEnd(f) <= f.table[i].offset
                   /\ EndOf(f.table[i]) <= FileLen(f)
NoOverlap(f) == \A i, j \in LiveSlots(f) :
                   i # j => \/ EndOf(f.table[i]) <= f.table[j].offset
                            \/ EndOf(f.table[j]) <= f.table[i].offset
UnusedZero(f) == \A i \in FreeSlots(f) : f.table[i].size = 0
WellFormed(f, v0, n0) == SigVerOK(f, v0, n0) /\ RangesOK(f) /\ NoOverlap(f) /\ UnusedZero(f)

\* C11
UniqueTypes(f) == \A i, j \in LiveSlots(f) : f.table[i].type = f.table[j].type => i = j

\* C09, split in its four clauses
RECURSIVE SumSizes(_, _)
SumSizes(f, k) == IF k = 0 THEN 0 ELSE SumSizes(f, k - 1) + f.table[k].size
FreeAfterLive(f) == \A i \in FreeSlots(f), j \in LiveSlots(f) : j < i
BackToBack(f) == \A i \in LiveSlots(f) :
                    f.table[i].offset = TableEnd(f) + SumSizes(f, i - 1)
\* "live" sizes only: unused slots are required to have size 0 by UnusedZero,
\* here they are simply not counted
RECURSIVE LiveSum(_, _)
LiveSum(f, k) == IF k = 0 THEN 0
                 ELSE LiveSum(f, k - 1) + (IF IsLive(f.table[k]) THEN f.table[k].size ELSE 0)
LengthExact(f) == FileLen(f) = TableEnd(f) + LiveSum(f, f.n)
FreeAtEnd(f)  == \A i \in FreeSlots(f) : f.table[i].offset = TableEnd(f) + LiveSum(f, f.n)
Compact(f) == FreeAfterLive(f) /\ BackToBack(f) /\ LengthExact(f) /\ FreeAtEnd(f)

\* the explored family of initial files: table order = offset order and free
\* slots point at or beyond the end of the last live range
InOrder(f) == \A i, j \in LiveSlots(f) : i < j => EndOf(f.table[i]) <= f.table[j].offset
RECURSIVE MaxEnd(_, _)
MaxEnd(f, k) == IF k = 0 THEN TableEnd(f)
                ELSE LET m == MaxEnd(f, k - 1) IN
                     IF IsLive(f.table[k]) /\ EndOf(f.table[k]) > m THEN EndOf(f.table[k]) ELSE m
\* the explored family: every unused slot points at or beyond the end of the live data - except
\* that a spare one (not the first unused slot) may still carry the end of the table
FreeBeyondLive(f) == \A i \in FreeSlots(f) :
                        \/ f.table[i].offset >= MaxEnd(f, f.n)
                        \/ f.table[i].offset = TableEnd(f) /\ \E j \in FreeSlots(f) : j < i

-----------------------------------------------------------------------------
(* What the three mutations do to a file that accepts them.  Written in    *)
(* the order in which the library performs the steps.                      *)

\* the new block: [t, fmt, u, sz, c, cd, md]
NewEntry(b, off) == [type |-> b.t, format |-> b.fmt, offset |-> off, size |-> b.sz,
                     comment |-> b.c, cdate |-> b.cd, mdate |-> b.md]

HasFree(f)      == FreeSlots(f) # {}
FirstFree(f)    == FirstOf(f, 0)
\* an unused slot with a live entry somewhere behind it
HoleAt(f, k)    == \E j \in (k + 1)..f.n : IsLive(f.table[j])

\* add: first unused slot k; entry at that slot's offset; every later slot is
\* re-pointed to offset + size; payload written at offset
AddFile(f, b) ==
  LET k   == FirstFree(f)
      off == f.table[k].offset
  IN [f EXCEPT
        !.table = [i \in Slots(f) |->
                     IF i = k THEN NewEntry(b, off)
                     ELSE IF i > k THEN [f.table[i] EXCEPT !.offset = off + b.sz]
                     ELSE f.table[i]],
        !.data  = WriteAt(f.data, off - TableEnd(f), [u |-> b.u, lo |-> 0, hi |-> b.sz])]

\* remove: first entry of that type deleted from the table (the entries listed
\* after it move up one slot); every entry whose block is STORED behind the
\* removed block - wherever it is listed - is shifted down by the removed size
\* (unused slots pointing behind it included); a fresh unused slot is appended
\* whose offset is the end of the remaining data; the tail of the file is
\* moved up and the file truncated
RECURSIVE MaxEndSeq(_, _, _)
MaxEndSeq(tb, k, dflt) == IF k = 0 THEN dflt
                          ELSE LET m == MaxEndSeq(tb, k - 1, dflt) IN
                               IF EndOf(tb[k]) > m THEN EndOf(tb[k]) ELSE m
RemoveFile(f, t) ==
  LET k  == FirstOf(f, t)
      e  == f.table[k]
      Down(x) == IF x.offset > e.offset THEN [x EXCEPT !.offset = @ - e.size] ELSE x
      sh == [i \in 1..(f.n - 1) |-> Down(IF i < k THEN f.table[i] ELSE f.table[i + 1])]
      newoff == MaxEndSeq(sh, f.n - 1, TableEnd(f))
  IN [f EXCEPT
        !.table = [i \in Slots(f) |-> IF i < f.n THEN sh[i] ELSE Unused(newoff)],
        !.data  = Cut(f.data, e.offset - TableEnd(f), e.size)]

\* replace = remove, then add; a comment that is not given (NoComment) is
\* carried over from the entry that is replaced
NoComment == -1
ReplaceFile(f, b) ==
  LET old == f.table[FirstOf(f, b.t)]
      bb  == IF b.c = NoComment THEN [b EXCEPT !.c = old.comment] ELSE b
  IN AddFile(RemoveFile(f, b.t), bb)

\* would the add that follows the remove inside a replace find a hole?
ReplaceHole(f, t) == LET g == RemoveFile(f, t) IN HoleAt(g, FirstFree(g))

\* canonical empty container written by Tdf.new
EmptyFile(n) == [n |-> n, sigok |-> TRUE, version |-> 1,
                 table |-> [i \in 1..n |-> Unused(HDR + ENT * n)], data |-> <<>>]
=============================================================================
