SPECIFICATION Spec
CONSTANTS
  HDR = 2
  ENT = 1
  N = 3
  Types = {1, 2}
  KS = {1, 2}
  AddOrder = "lib"
CHECK_DEADLOCK FALSE
INVARIANT TornRemReadable
