---------------------------- MODULE MCSession ----------------------------
(***************************************************************************)
(* Bounded model of TdfSession for exhaustive checking (design level) and  *)
(* for behaviour generation: the labelled state graph of this model is     *)
(* turned into transition tours that are executed on the real library.     *)
(*                                                                         *)
(* Toy geometry: header 2 bytes, entry 1 byte.  Abstract block types       *)
(* WT (writable through the library) and OT (opaque: present in initial    *)
(* files only, types the library cannot decode).  Payload 10*t+k of type t *)
(* has size SizeOf; payload 10*t+9 cannot be encoded.                      *)
(***************************************************************************)
EXTENDS TdfSession, TLC, Json, IOUtils

CONSTANTS N,          \* table length
          WT,         \* writable abstract types, subset of 1..6
          OT,         \* opaque abstract types
          KS,         \* payload variants per type, subset of 1..8
          AddCs,      \* comments offered to add:     0 = default, 1, 2, 9 = unencodable
          RepCs,      \* comments offered to replace: -1 = none given, 1, 2, 9
          SetTypes,   \* writable types that have a convenience setter
          DescSel,    \* which initial-file descriptors to start from
          Readers     \* reader calls offered as actions: subset of ReaderKinds

ImplicitRb(md) == {"rb"}              \* what the pinned code does
ImplicitAny(md) == {md, "rb"}         \* what the properties allow
RepCsFull == {-1, 2, 9}               \* cfg files cannot spell -1
RepCsSmall == {-1, 9}
RepCsNone == {-1}
Types == WT \cup OT
TypeOfU(u) == u \div 10
SizeOfU(u) == ((u % 10) % 3) + 1          \* k=1 -> 2, k=2 -> 3, k=3 -> 1 ...
Blk(u, c)  == [t |-> TypeOfU(u), fmt |-> 1, u |-> u, sz |-> SizeOfU(u), c |-> c,
               cd |-> u, md |-> u + 100]
IsBadU(u)  == u % 10 = 9
Pay(t)     == {10 * t + k : k \in KS} \cup {10 * t + 9}

\* ---------------------------------------------------------------- initial files
\* a descriptor: blocks in STORAGE order with the hole in front of each, the
\* trailing garbage, where free slots point, the table order (tord: table
\* position -> storage position; 0 = an unused slot) - mirrored by the Python
\* builder (lib/verif/refio.py: build_from_descriptor)
D(live, gap, tail, freeAt, tord) ==
  [live |-> live, gap |-> gap, tail |-> tail, freeAt |-> freeAt, tord |-> tord]
O1 == [u |-> 71, c |-> 3]     \* opaque block, foreign comment
O2 == [u |-> 82, c |-> 3]
W(u) == [u |-> u, c |-> 1]
AllDescs == <<
  D(<<>>, <<>>, 0, "eof", <<>>),                                  \* 1 fresh
  D(<<O1>>, <<0>>, 0, "eof", <<1>>),                              \* 2 one opaque
  D(<<W(11)>>, <<0>>, 0, "eof", <<1>>),                           \* 3 one writable
  D(<<O1, W(12)>>, <<0, 0>>, 0, "eof", <<1, 2>>),                 \* 4 opaque first
  D(<<W(21), O1>>, <<0, 0>>, 0, "eof", <<1, 2>>),                 \* 5 opaque last
  D(<<W(11), W(22)>>, <<0, 0>>, 0, "eof", <<1, 2>>),              \* 6 two writable
  D(<<O1, W(11), W(22)>>, <<0, 0, 0>>, 0, "eof", <<1, 2, 3>>),    \* 7 three
  D(<<W(12)>>, <<1>>, 0, "eof", <<1>>),                           \* 8 hole before the block
  D(<<W(11), O1>>, <<0, 2>>, 0, "eof", <<1, 2>>),                 \* 9 hole between blocks
  D(<<W(11)>>, <<0>>, 2, "eof", <<1>>),                           \* 10 trailing garbage, free slots at EOF
  D(<<W(11)>>, <<0>>, 2, "live", <<1>>),                          \* 11 trailing garbage, free slots at end of live data
  D(<<W(11)>>, <<0>>, 0, "eof", <<0, 1>>),                        \* 12 unused slot in front of a live entry
  D(<<W(11), O1>>, <<0, 0>>, 0, "eof", <<1, 0, 2>>),              \* 13 unused slot between live entries
  D(<<W(11), O1>>, <<0, 0>>, 0, "eof", <<2, 1>>),                 \* 14 table order # storage order
  D(<<O1, W(11), W(22)>>, <<0, 0, 0>>, 0, "eof", <<3, 1, 2>>),    \* 15 rotated table order
  D(<<O1, O2>>, <<0, 0>>, 0, "eof", <<1, 2>>),                    \* 16 two opaque blocks
  D(<<W(11), W(22), O1>>, <<0, 0, 0>>, 0, "eof", <<1, 0, 2, 3>>), \* 17 unused slot with two live entries behind it
  D(<<W(11), W(22)>>, <<0, 0>>, 3, "live", <<2, 1>>),             \* 18 swapped order + trailing garbage
  D(<<W(11), O1>>, <<0, 0>>, 0, "eof", <<1, 0, 0, 2>>),           \* 19 two unused slots in front of a live entry
  D(<<W(11)>>, <<0>>, 0, "stale", <<1>>),                         \* 20 only the first unused slot points at the end of the data, the spare ones at the end of the table
  D(<<O1, W(22)>>, <<0, 0>>, 0, "stale", <<1, 2>>)                \* 21 the same behind a foreign block
>>
Fits(d) == Len(d.tord) <= N /\ \A i \in 1..Len(d.live) : TypeOfU(d.live[i].u) \in Types
DescIds == {k \in DescSel : k \in 1..Len(AllDescs) /\ Fits(AllDescs[k])}

BuildFile(d) ==
  LET k  == Len(d.live)
      TE == HDR + ENT * N
      EndS[i \in 0..k] == IF i = 0 THEN TE ELSE EndS[i - 1] + d.gap[i] + SizeOfU(d.live[i].u)
      StartS(i) == EndS[i - 1] + d.gap[i]
      endLive == EndS[k]
      eof     == endLive + d.tail
      freeOff == IF d.freeAt = "live" THEN endLive ELSE eof
      \* "stale": the first unused slot carries the end of the data (the library places the next
      \* block there), the spare ones behind it still carry the end of the table
      FreeOffAt(i) == IF d.freeAt = "stale" /\ i > Len(d.tord) + 1 THEN TE ELSE freeOff
      Ent(i)  == NewEntry(Blk(d.live[i].u, d.live[i].c), StartS(i))
      RECURSIVE DataFrom(_)
      DataFrom(i) == IF i > k THEN Hole(d.tail)
                     ELSE Hole(d.gap[i]) \o Whole(d.live[i].u, SizeOfU(d.live[i].u)) \o DataFrom(i + 1)
  IN [n |-> N, sigok |-> TRUE, version |-> 1,
      table |-> [i \in 1..N |-> IF i <= Len(d.tord) /\ d.tord[i] # 0 THEN Ent(d.tord[i])
                                ELSE Unused(FreeOffAt(i))],
      data |-> Norm(DataFrom(1))]

InitState(k) == LET f == BuildFile(AllDescs[k]) IN
                [f |-> f, m |-> Closed("rb"), g |-> GhostInit(f, Types)]

\* ---------------------------------------------------------------- calls
AddOp(u, c)  == [op |-> "add", b |-> Blk(u, c), bad |-> IF IsBadU(u) THEN "bad" ELSE "none", cok |-> c # 9]
RepOp(u, c)  == [op |-> "replace", b |-> Blk(u, c), bad |-> IF IsBadU(u) THEN "bad" ELSE "none", cok |-> c # 9]
SetOp(u)     == [op |-> "set", b |-> Blk(u, NoComment), bad |-> IF IsBadU(u) THEN "bad" ELSE "none", cok |-> TRUE]
RemOp(t)     == [op |-> "remove", t |-> t]
Plain(name)  == [op |-> name]
ReaderKinds  == {"get_type", "get_index", "item", "has", "getter", "blocks", "len", "nbytes", "repr", "eq", "copy"}
ReadOp(w, t) == [op |-> "read", what |-> w, t |-> t]
ReadOps      == {ReadOp(w, t) : w \in Readers, t \in WT}

MutOps == {AddOp(u, c) : u \in UNION {Pay(t) : t \in WT}, c \in AddCs}
          \cup {RepOp(u, c) : u \in UNION {Pay(t) : t \in WT}, c \in RepCs}
          \cup {SetOp(u) : u \in UNION {Pay(t) : t \in SetTypes}}
          \cup {RemOp(t) : t \in Types}
AllOps == MutOps \cup ReadOps \cup {Plain("allow_write"), Plain("enter"), Plain("exit"), Plain("exit_exc")}

VARIABLES s, started
vars == <<s, started>>

Init == started = FALSE /\ s = InitState(CHOOSE k \in DescIds : TRUE)

Setup(k) == ~started /\ started' = TRUE /\ s' = InitState(k)

Do(o) == /\ started /\ UNCHANGED started
         /\ LET out == Outcome(s, o) IN
            \E m2 \in out.ms : s' = [f |-> out.f, m |-> m2, g |-> out.g]

Ok(o)        == Causes(s, o) = {} /\ Do(o)
No(o, cause) == Causes(s, o) # {} /\ cause = Primary(Causes(s, o)) /\ Do(o)

AllCauses == {CauseOrder[i] : i \in 1..Len(CauseOrder)}

AddOk(u, c)        == Ok(AddOp(u, c))
AddNo(u, c, cause) == No(AddOp(u, c), cause)
RepOk(u, c)        == Ok(RepOp(u, c))
RepNo(u, c, cause) == No(RepOp(u, c), cause)
SetOk(u)           == TypeOfU(u) \in SetTypes /\ Ok(SetOp(u))
SetNo(u, cause)    == TypeOfU(u) \in SetTypes /\ No(SetOp(u), cause)
RemOk(t)           == Ok(RemOp(t))
RemNo(t, cause)    == No(RemOp(t), cause)
AllowWrite         == Do(Plain("allow_write"))
Enter              == ~s.m.inside /\ Do(Plain("enter"))
ReEnter            == s.m.inside /\ Do(Plain("enter"))      \* nested with on the same object
Exit               == s.m.inside /\ Do(Plain("exit"))
ExitExc            == s.m.inside /\ Do(Plain("exit_exc"))
Read(w, t)         == Do(ReadOp(w, t))

Next ==
  \/ \E k \in DescIds : Setup(k)
  \/ \E t \in WT : \E u \in Pay(t) :
        \/ \E c \in AddCs : AddOk(u, c) \/ \E cause \in AllCauses : AddNo(u, c, cause)
        \/ \E c \in RepCs : RepOk(u, c) \/ \E cause \in AllCauses : RepNo(u, c, cause)
        \/ SetOk(u) \/ \E cause \in AllCauses : SetNo(u, cause)
  \/ \E t \in Types : RemOk(t) \/ \E cause \in AllCauses : RemNo(t, cause)
  \/ AllowWrite \/ Enter \/ ReEnter \/ Exit \/ ExitExc
  \/ \E w \in Readers, t \in WT : Read(w, t)

Spec == Init /\ [][Next]_vars

\* ---------------------------------------------------------------- properties
InvWellFormed == WellFormedS(s)                      \* C03
InvFrame      == FrameOK(s, Types)                   \* C04
InvCompact    == CompactS(s)                         \* C09
InvUnique     == UniqueS(s)                          \* C11
InvNoLeak     == NoLeakS(s)                          \* C08
InvFamily     == FreeBeyondLive(s.f)                 \* the explored family is closed under the operations

\* step properties, for every call offered in this state (C07 C08 C09)
InvSteps == \A o \in AllOps :
   LET out == Outcome(s, o) IN
   \A m2 \in out.ms :
     LET t == [f |-> out.f, m |-> m2, g |-> out.g] IN
       /\ RefusedNoEffect(s, t, out.causes)
       /\ WriteOnlyInWriteCtx(s, t, o)
       /\ GrowShrink(s, t, o, out.causes)
       /\ (o.op \notin Mutators => t.f = s.f)

\* comment carry-over of replace (C04): after a successful replace without a
\* comment the stored comment is the previous one
InvCarry == \A o \in MutOps :
   (o.op \in {"replace", "set"} /\ Causes(s, o) = {} /\ HasType(s.f, o.b.t) /\ o.b.c = NoComment)
     => Outcome(s, o).g.stored[o.b.t].c = s.g.stored[o.b.t].c

\* ---------------------------------------------------------------- table-only abstraction
\* TdfTableRel states add / remove as relations on the table alone; Apalache proves that TInv
\* is inductive for them with N = 14 and arbitrary sizes (TdfTableInd).  Here TLC ties those
\* relations to the operators that are validated against the code: in every reachable state,
\* the table part of every accepted mutation satisfies the relation, and TInv holds.
TR == INSTANCE TdfTableRel WITH N <- N, TE <- HDR + ENT * N
TableOf(f) == [ty |-> [i \in 1..N |-> f.table[i].type], off |-> [i \in 1..N |-> f.table[i].offset],
               sz |-> [i \in 1..N |-> f.table[i].size], flen |-> FileLen(f)]
InvTableInv == TR!TInv(TableOf(s.f)) /\ TR!EndFits(TableOf(s.f))
InvTableAgree == \A o \in MutOps :
   Causes(s, o) = {} =>
     LET x == TableOf(s.f) IN
     IF o.op = "remove" THEN TR!RemRel(x, TableOf(RemoveFile(s.f, o.t)), o.t)
     ELSE LET b == Effective(s, o) IN
          IF o.op = "add" \/ (o.op = "set" /\ ~SetIsReplace(s, o))
          THEN TR!AddRel(x, TableOf(AddFile(s.f, b)), b.t, b.sz)
          ELSE LET mid == RemoveFile(s.f, b.t) IN
               /\ TR!RemRel(x, TableOf(mid), b.t)
               /\ TR!AddRel(TableOf(mid), TableOf(AddFile(mid, b)), b.t, b.sz)

\* export of the descriptors for the Python side (lib/verif/plan.py builds the
\* real initial files from them)
ASSUME ("DESC_OUT" \in DOMAIN IOEnv) => JsonSerialize(IOEnv.DESC_OUT, AllDescs)
=============================================================================
