"""F13: allow_write() inside an already open read-only context lets add/remove
pass their guards; the write then fails on the read-only handle AFTER the
in-memory table was changed, so has_*/len/get_block report a block that is not
in the file (C11 'at every point', C10)."""
import os, sys, tempfile
sys.path.insert(0, os.environ.get("BASICTDF_SRC", "/repo/src"))
from basictdf import Tdf
from basictdf.tdfEvents import TemporalEventsData
with tempfile.TemporaryDirectory() as d:
    p = os.path.join(d, "f.tdf")
    Tdf.new(p)
    with Tdf(p) as t:
        t.allow_write()
        try:
            t.add_block(TemporalEventsData())
            print("DEFECT add accepted"); sys.exit(1)
        except Exception as x:
            pass
        bad = t.has_events or len(t) != 0
        print("DEFECT: has_events=%s len=%d after refused add" % (t.has_events, len(t)) if bad else "ok")
        sys.exit(1 if bad else 0)
