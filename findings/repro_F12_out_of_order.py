import os,sys,struct,tempfile
sys.path.insert(0,os.environ.get("BASICTDF_SRC","/repo/src"))
from basictdf import Tdf
from basictdf.tdfBlock import BlockType
sys.path.insert(0,'/verif/findings')
# build 3-slot file: table [A(type13)@T+100 len 50, B(type14)@T len 100, C(type 10)@T+150 len 30]
def build(p):
    n=3; T=64+288*n
    raw=bytearray(open(p,'rb').read()) if os.path.exists(p) else None
    d=tempfile.mkdtemp(); q=os.path.join(d,'x.tdf'); Tdf.new(q); raw=bytearray(open(q,'rb').read()[:T])
    struct.pack_into("<i",raw,20,n)
    ents=[(13,1,T+100,50),(14,1,T,100),(10,1,T+150,30)]
    for i,(t,f,o,s) in enumerate(ents):
        struct.pack_into("<IIii",raw,64+288*i,t,f,o,s)
    data=bytes([0xB]*100)+bytes([0xA]*50)+bytes([0xC]*30)
    open(p,'wb').write(bytes(raw)+data)
def table(p):
    raw=open(p,'rb').read(); n=struct.unpack_from("<i",raw,20)[0]
    return [struct.unpack_from("<IIii",raw,64+288*i) for i in range(n)],raw
with tempfile.TemporaryDirectory() as d:
    for victim,name in ((BlockType.analogData,'B'),(BlockType.volumetricData,'A'),(BlockType.anthropometricData,'C')):
        p=os.path.join(d,f'f{name}.tdf'); build(p)
        with Tdf(p).allow_write() as t: t.remove_block(victim)
        tab,raw=table(p)
        ok=True
        for (ty,f,o,s) in tab:
            if ty: 
                fill={13:0xA,14:0xB,10:0xC}[ty]
                ok&= raw[o:o+s]==bytes([fill]*s)
        print(name,tab,len(raw),'OK' if ok else 'CORRUPT')
