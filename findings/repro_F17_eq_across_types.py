"""F17 (C14): the block types that compare by their encodings (3D markers, force/torque, optical
set-up) never look at the TYPE of the other operand: two blocks of different types whose encodings
happen to coincide compare equal, and so do two files that hold them.

Witness: an optical set-up without channels and an events block without events (both encode to
eight zero bytes); a 3D block and a force/torque block without frames and tracks."""
import os
import sys
import tempfile

import numpy as np

from basictdf import Tdf
from basictdf.tdfData3D import Data3D, Data3dBlockFormat
from basictdf.tdfEvents import TemporalEventsData
from basictdf.tdfForce3D import ForceTorque3D
from basictdf.tdfOpticalSystem import OpticalSetupBlock

bad = []
if OpticalSetupBlock() == TemporalEventsData():
    bad.append("an optical set-up without channels == an events block without events")
g = (np.zeros(3, "<f4"), np.zeros((3, 3), "<f4"), np.zeros(3, "<f4"))
d = Data3D(0, 0, *g, format=Data3dBlockFormat.byTrackWithoutLinks)
f = ForceTorque3D(0, 0, *g)
try:
    if d == f or f == d:
        bad.append("a 3D block == a force/torque block")
except Exception as x:  # noqa: BLE001
    pass
tmp = tempfile.mkdtemp()
pa, pb = os.path.join(tmp, "a.tdf"), os.path.join(tmp, "b.tdf")
with Tdf.new(pa).allow_write() as t:
    t.add_block(OpticalSetupBlock())
with Tdf.new(pb).allow_write() as t:
    t.add_block(TemporalEventsData())
with Tdf(pa) as a, Tdf(pb) as b:
    if a == b:
        bad.append("a file holding an optical set-up == a file holding an events block")
for p in (pa, pb):
    os.unlink(p)
os.rmdir(tmp)
print("DEFECT: " + "; ".join(bad) if bad else "ok")
sys.exit(1 if bad else 0)
