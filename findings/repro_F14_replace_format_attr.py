"""F14: replace_block with a block whose format attribute is not a format enum (a plain int) and
whose encoder never looks at the format (events, optical setup, calibration ...): the pre-check
passed, the old block was removed, then add_block failed building the table entry -> block lost."""
import os, sys, tempfile, hashlib
sys.path.insert(0, os.environ.get("BASICTDF_SRC", "/repo/src"))
from basictdf import Tdf
from basictdf.tdfEvents import TemporalEventsData, Event
with tempfile.TemporaryDirectory() as d:
    p = os.path.join(d, "f.tdf")
    Tdf.new(p)
    b = TemporalEventsData(); b.events.append(Event("a", [1.0]))
    with Tdf(p).allow_write() as t:
        t.add_block(b)
    before = hashlib.sha256(open(p, "rb").read()).hexdigest()
    bad = TemporalEventsData(format=1)
    with Tdf(p).allow_write() as t:
        try:
            t.replace_block(bad)
            print("accepted"); 
        except Exception as x:
            pass
    same = before == hashlib.sha256(open(p, "rb").read()).hexdigest()
    print("ok" if same else "DEFECT: failed replace changed the file")
    sys.exit(0 if same else 1)
