"""F15: OpticalSetupBlock(channels=lst) kept the caller's list as its own container: two blocks
built by separate constructor calls from the same list shared it - appending a channel to one
block changed what the other contains and encodes (C20)."""
import os, sys
sys.path.insert(0, os.environ.get("BASICTDF_SRC", "/repo/src"))
import numpy as np
from basictdf.tdfOpticalSystem import OpticalSetupBlock, OpticalChannelData
from basictdf.tdfTypes import CameraViewPort
def ch(i): return OpticalChannelData(i, "l", "t", f"n{i}", CameraViewPort(np.array([0, 0], "<i4"), np.array([1, 1], "<i4")))
lst = [ch(0)]
a = OpticalSetupBlock(channels=lst)
b = OpticalSetupBlock(channels=lst)
a.channels.append(ch(1))
bad = len(b) != 1
print("DEFECT: second block now has %d channels" % len(b) if bad else "ok")
sys.exit(1 if bad else 0)
