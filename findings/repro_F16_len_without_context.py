"""F16 (C11): len(tdf) is the only reader of Tdf that neither refuses to work outside a context nor
opens one: it answers from whatever table the object parsed last (or raises AttributeError if it
never parsed one), while the presence checks, get_block, blocks and the getters re-read the file.

Witness: two objects on one file, used one after the other (no overlap)."""
import os
import sys
import tempfile

from basictdf import Tdf
from basictdf.tdfEvents import Event, TemporalEventsData

d = tempfile.mkdtemp()
p = os.path.join(d, "f.tdf")
Tdf.new(p)
a, b = Tdf(p), Tdf(p)
with a:
    pass                                   # a has parsed the (empty) table
ev = TemporalEventsData()
ev.events.append(Event("x", [1.0]))
with b.allow_write() as f:
    f.events = ev                          # the file now holds one block
stale = len(a)                             # asked first: nothing has refreshed a's table yet
try:
    fresh = len(Tdf(p))
except AttributeError as x:
    fresh = f"AttributeError: {x}"
print("through a, no context open:  has_events =", a.has_events, " blocks =", sum(1 for x in a.blocks if x.type.value != 0),
      " len =", stale, " | len of a brand new object:", fresh)
ok = a.has_events and stale == 1 and fresh == 1
print("ok" if ok else "DEFECT: the number of live blocks disagrees with the presence checks at the same moment")
os.unlink(p)
os.rmdir(d)
sys.exit(0 if ok else 1)
