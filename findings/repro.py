#!/venv/bin/python
"""Witnesses of the genuine defects F1..F11 (DESIGN.md section 7).

Each function replays the specific history/input recorded in
known_findings.json against the *real* library imported from /repo/src and
returns (defect_present: bool, detail).  On the pinned tree every one of them
reported True; after the corresponding `fix:` commit it reports False.

This file is documentation + regression witness; the verdicts of the registered
checks come from the TLA+ machinery, not from here.

usage: findings/repro.py [F1 F2 ...]
"""
import io
import os
import sys
import tempfile
import struct

sys.path.insert(0, os.environ.get("BASICTDF_SRC", "/repo/src"))
import numpy as np  # noqa: E402

from basictdf import Tdf  # noqa: E402
from basictdf.tdfBlock import BlockType  # noqa: E402
from basictdf.tdfEvents import TemporalEventsData, Event  # noqa: E402
from basictdf.tdfEMG import EMG, EMGTrack  # noqa: E402
from basictdf.tdfForcePlatformsData import ForcePlatformsDataBlock, ForcePlatformData  # noqa: E402
from basictdf.tdfForcePlatformsCalibration import (  # noqa: E402
    ForcePlatformsCalibrationDataBlock,
    ForcePlatformInfo,
)
from basictdf.tdfOpticalSystem import OpticalSetupBlock, OpticalChannelData  # noqa: E402
from basictdf.tdfCalibrationData import (  # noqa: E402
    CalibrationDataBlock,
    BTSCameraData,
    CalibrationDataBlockFormat,
    DistorsionModel,
)
from basictdf.tdfTypes import CameraViewPort  # noqa: E402


def _events(n, tag="e"):
    b = TemporalEventsData()
    for i in range(n):
        b.events.append(Event(f"{tag}{i}", [float(i)]))
    return b


def _emg(n, ns=4):
    b = EMG(1000, ns)
    for i in range(n):
        b.addSignal(EMGTrack(f"s{i}", np.arange(ns, dtype="<f4") + i))
    return b


def _table(path):
    raw = open(path, "rb").read()
    n = struct.unpack_from("<i", raw, 20)[0]
    out = []
    for i in range(n):
        t, f, off, sz = struct.unpack_from("<IIii", raw, 64 + 288 * i)
        out.append((t, f, off, sz))
    return out, len(raw)


def _newfile(d, n=14):
    p = os.path.join(d, "f.tdf")
    Tdf.new(p)
    if n != 14:
        # shrink the table of an empty container to n slots (foreign-file geometry)
        raw = bytearray(open(p, "rb").read())
        struct.pack_into("<i", raw, 20, n)
        raw = raw[: 64 + 288 * n]
        for i in range(n):
            struct.pack_into("<i", raw, 64 + 288 * i + 8, 64 + 288 * n)
        open(p, "wb").write(bytes(raw))
    return p


def F1():
    """full 2-slot table: remove first, add -> new block lands on the survivor"""
    with tempfile.TemporaryDirectory() as d:
        p = _newfile(d, 2)
        t = Tdf(p)
        with t.allow_write() as f:
            f.add_block(_events(1))
            f.add_block(_emg(1))
        with t.allow_write() as f:
            f.remove_block(BlockType.temporalEventsData)
        tab, flen = _table(p)
        free = [e for e in tab if e[0] == 0]
        live = [e for e in tab if e[0] != 0]
        end = max(e[2] + e[3] for e in live)
        bad = any(e[2] != end for e in free) or flen != end
        return bad, f"free slots {free} live {live} flen {flen}"


def F2():
    """second add of the same type is accepted"""
    with tempfile.TemporaryDirectory() as d:
        p = _newfile(d)
        with Tdf(p).allow_write() as f:
            f.add_block(_events(1))
            try:
                f.add_block(_events(2))
            except ValueError:
                return False, "refused"
        tab, _ = _table(p)
        return True, f"{sum(1 for e in tab if e[0] == 16)} event blocks"


def F3():
    """force_platforms_data setter raises AttributeError"""
    with tempfile.TemporaryDirectory() as d:
        p = _newfile(d)
        b = ForcePlatformsDataBlock(0.0, 100, 3)
        with Tdf(p).allow_write() as f:
            try:
                f.force_platforms_data = b
            except AttributeError as e:
                return True, repr(e)
        return False, "ok"


def _sha(p):
    import hashlib

    return hashlib.sha256(open(p, "rb").read()).hexdigest()


def F4():
    """add of a block with an over-long label changes the file"""
    with tempfile.TemporaryDirectory() as d:
        p = _newfile(d)
        bad = _events(1)
        bad.events.append(Event("x" * 300, [1.0]))
        before = _sha(p)
        with Tdf(p).allow_write() as f:
            try:
                f.add_block(bad)
            except Exception:
                pass
        return before != _sha(p), "bytes changed" if before != _sha(p) else "unchanged"


def F5():
    """failed replace destroys the old block"""
    with tempfile.TemporaryDirectory() as d:
        p = _newfile(d)
        with Tdf(p).allow_write() as f:
            f.add_block(_events(1))
        bad = _events(1)
        bad.events.append(Event("x" * 300, [1.0]))
        before = _sha(p)
        with Tdf(p).allow_write() as f:
            try:
                f.replace_block(bad)
            except Exception:
                pass
        return before != _sha(p), "bytes changed" if before != _sha(p) else "unchanged"


def F6():
    """gap frames of decoded platform data are whatever numpy.empty returns"""
    ap = np.arange(8, dtype="<f4").reshape(4, 2)
    fo = np.arange(12, dtype="<f4").reshape(4, 3)
    to = np.arange(4, dtype="<f4")
    ap[1] = np.nan
    fo[1] = np.nan
    to[1] = np.nan
    b = ForcePlatformsDataBlock(0.0, 100, 4)
    b.add_platform(ForcePlatformData(ap, fo, to))
    s = io.BytesIO()
    b._write(s)
    s.seek(0)
    real_empty = np.empty

    def poisoned(shape, dtype=float, *a, **k):
        arr = real_empty(shape, dtype, *a, **k)
        if arr.dtype != object:
            arr.view("u1")[...] = 0x41
        return arr

    np.empty = poisoned
    try:
        r = ForcePlatformsDataBlock._build(s, 1)
    finally:
        np.empty = real_empty
    _, plat = next(iter(r))
    ok = np.isnan(plat.application_point[1]).all() and np.isnan(plat.force[1]).all() and np.isnan(plat.torque[1])
    return (not ok), f"gap frame decoded as {plat.application_point[1]}"


def F7():
    """weak equalities: zip prefix, NaN != NaN, BTS camera identity"""
    out = []
    a, b = _events(1), _events(2)
    if a == b:
        out.append("events zip-prefix")
    e1, e2 = _emg(1), _emg(2)
    if e1 == e2:
        out.append("emg zip-prefix")
    g = EMG(1000, 4)
    d = np.arange(4, dtype="<f4")
    d[1] = np.nan
    g.addSignal(EMGTrack("s", d))
    g2 = EMG(1000, 4)
    g2.addSignal(EMGTrack("s", d.copy()))
    if not (g == g2):
        out.append("emg NaN")
    h1, h2 = _emg(1), _emg(1)
    h2._emgMap[0] = 5
    if h1 == h2:
        out.append("emg channel ignored")

    def cam():
        return BTSCameraData(
            np.eye(3), np.zeros(3), np.ones(2), np.ones(2), np.zeros(70), np.zeros(70),
            CameraViewPort(np.array([0, 0], "<i4"), np.array([1, 1], "<i4")),
        )

    def cal():
        return CalibrationDataBlock(
            DistorsionModel.noDistorsion, np.ones(3, "<f4"), np.eye(3, dtype="<f4"), np.zeros(3, "<f4"),
            np.array([0], "<i2"), [cam()], CalibrationDataBlockFormat.BTS,
        )

    if not (cal() == cal()):
        out.append("BTS camera identity")
    return bool(out), ", ".join(out)


def F8():
    out = []
    e = _emg(2)
    try:
        e.removeSignal("s0")
        if len(e._signals) != 1:
            out.append("removeSignal no effect")
    except AttributeError as x:
        out.append(f"removeSignal {x!r}")
    except KeyError as x:
        out.append(f"removeSignal {x!r}")
    p = ForcePlatformInfo("p", np.ones(2, "<f4"), np.zeros((4, 3), "<f4"))
    c = ForcePlatformsCalibrationDataBlock(platforms=[p])
    if len(c.platforms) != len(c):
        out.append("FPCal ctor empty map")
    b = ForcePlatformsDataBlock(0.0, 100, 2)
    b.add_platform(ForcePlatformData(np.zeros((2, 2), "<f4"), np.zeros((2, 3), "<f4"), np.zeros(2, "<f4")))
    s = io.BytesIO()
    b._write(s)
    s.seek(0)
    r = ForcePlatformsDataBlock._build(s, 1)
    try:
        r.add_platform(ForcePlatformData(np.zeros((2, 2), "<f4"), np.zeros((2, 3), "<f4"), np.zeros(2, "<f4")))
    except AttributeError as x:
        out.append(f"decoded plat_map {x!r}")
    return bool(out), ", ".join(out)


def F9():
    out = []
    try:
        CameraViewPort([0, 0], [1, 1])
    except TypeError:
        out.append("list viewport refused")
    try:
        CameraViewPort(5, 5)
        out.append("scalar viewport accepted")
    except TypeError:
        pass
    return bool(out), ", ".join(out)


def F10():
    a = OpticalSetupBlock()
    a.channels.append(
        OpticalChannelData(0, "l", "t", "n", CameraViewPort(np.array([0, 0], "<i4"), np.array([1, 1], "<i4")))
    )
    b = OpticalSetupBlock()
    return len(b) != 0, f"second instance has {len(b)} channels"


def F11():
    p = ForcePlatformInfo("p", np.ones(2, "<f4"), np.zeros((4, 3), "<f4"))
    s = io.BytesIO()
    p._write(s)
    raw = bytearray(s.getvalue())
    raw[-256:] = b"\x81" * 256
    try:
        q = ForcePlatformInfo._build(io.BytesIO(bytes(raw)))
        return not (q == p), "decoded"
    except UnicodeDecodeError as x:
        return True, repr(x)


ALL = [F1, F2, F3, F4, F5, F6, F7, F8, F9, F10, F11]

if __name__ == "__main__":
    want = set(sys.argv[1:])
    rc = 0
    for f in ALL:
        if want and f.__name__ not in want:
            continue
        try:
            bad, detail = f()
        except Exception as x:  # a crash inside a witness is itself a defect symptom
            bad, detail = True, f"witness raised {x!r}"
        print(f"{f.__name__}: {'DEFECT' if bad else 'ok'} - {detail}")
        rc |= bad
    sys.exit(1 if rc else 0)
